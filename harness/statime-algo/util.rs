// helpers shared by the statime-algo harness modules: f64 <-> hex bit pattern, Timestamp/Duration
// <-> integers (through the public constructors of statime-base), AlgoError classes.
extern crate std;
use std::{format, string::String, string::ToString};

use crate::AlgoError;
use statime_base::{Duration, TAI, Timestamp};

pub(crate) fn f_of(tok: &str) -> f64 {
    f64::from_bits(u64::from_str_radix(tok, 16).unwrap())
}
pub(crate) fn f_out(x: f64) -> String {
    if x.is_nan() {
        "7ff8000000000000".to_string()
    } else {
        format!("{:016x}", x.to_bits())
    }
}
pub(crate) fn dur_of_i128(d: i128) -> Duration {
    let sec = (d >> 64) as i64;
    let lo = d as u64;
    let hi32 = (lo >> 32) as f64 / 4294967296.0;
    let lo32 = (lo & 0xffff_ffff) as f64 / 4294967296.0 / 4294967296.0;
    Duration::from_seconds_nanos(sec, 0) + Duration::from_f64_seconds(hi32) + Duration::from_f64_seconds(lo32)
}
pub(crate) fn i128_of_dur(mut d: Duration) -> i128 {
    let mut acc: i128 = 0;
    loop {
        let f = d.as_seconds();
        if f == 0.0 {
            break;
        }
        let piece = Duration::from_f64_seconds(f);
        acc = acc.wrapping_add((f * 18446744073709551616.0) as i128);
        d = d - piece;
    }
    acc
}
pub(crate) fn ts_of_u128(x: u128) -> Timestamp<TAI> {
    let hi = (x >> 64) as u64;
    let lo = x as u64;
    Timestamp::from_seconds_nanos_since_unix_epoch(hi, 0) + dur_of_i128(lo as i128)
}
pub(crate) fn u128_of_ts(t: Timestamp<TAI>) -> u128 {
    i128_of_dur(t - Timestamp::UNIX_EPOCH) as u128
}

pub(crate) fn err_code(e: &AlgoError) -> &'static str {
    match e {
        AlgoError::UnknownClock(_) => "e1",
        AlgoError::ClockAlreadyExists(_) => "e2",
        AlgoError::UnknownLink(_) => "e3",
        AlgoError::LinkAlreadyExists(_) => "e4",
        AlgoError::LinkNotExternal(_) => "e5",
        AlgoError::BothClocksExternal(_, _) => "e6",
        AlgoError::ClocksEqual(_) => "e7",
        AlgoError::NonMonotonicTimeProgression { .. } => "e8",
        AlgoError::CannotRemoveSystemClock(_) => "e9",
        AlgoError::MatrixError(_) => "e10",
        AlgoError::ClockError(_) => "e11",
        AlgoError::NotEnoughMeasurements(_) => "e12",
        AlgoError::ClockInUse(_, _) => "e13",
    }
}

