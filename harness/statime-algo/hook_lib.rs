// crate-root hook module: shared driver for the per-property harness modules
#[allow(unused_extern_crates)]
extern crate std;
include!("/verif/harness/common/drive.rs");

#[cfg(any(verif_all, verif_c43))]
#[path = "/verif/harness/statime-algo/c43.rs"]
mod c43;
