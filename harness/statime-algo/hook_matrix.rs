// hook file for statime-algo/src/matrix.rs: declares the per-property harness modules
