// C43 helper inside filter.rs: read-only access to the private parts of LinkFilter and the
// derivation of the measurement oracle of coq/Model/PtpController.v (the link-noise estimate and
// the outcome of the consensus test are arguments of the model; they are obtained here by
// running the first part of LinkFilter::measurement on a clone with the crate's own functions).
extern crate std;
use std::vec::Vec;

use super::super::*;

// inherent methods, so that the harness module in the crate root can call them (the hook
// modules themselves are private to their source files)
impl<S: KalmanStorageBase> LinkFilter<S> {
    pub(crate) fn verif_est(&self) -> &EstimatorState<S> {
        &self.estimation_state
    }

    // (id, active, tracked, external)
    pub(crate) fn verif_links(&self) -> Vec<(LinkId, bool, bool, bool)> {
        self.links
            .iter()
            .map(|l| (l.id, l.active, l.link_state.is_tracked(), l.external_link_state.is_some()))
            .collect()
    }

    pub(crate) fn verif_oracle(
        &self,
        config: &LinkFilterConfig,
        direction: DirectedLinkId,
        offset: UncertainValue,
    ) -> (Option<(f64, f64)>, Option<bool>) {
        oracle(self, config, direction, offset)
    }
}

fn oracle<S: KalmanStorageBase>(
    f: &LinkFilter<S>,
    config: &LinkFilterConfig,
    direction: DirectedLinkId,
    offset: UncertainValue,
) -> (Option<(f64, f64)>, Option<bool>) {
    let mut pre = f.clone();
    let time = pre.estimation_state.current_time();
    let Ok(link) = pre.links.find_by_id_mut(direction.link_id()) else {
        return (None, None);
    };
    link.link_state.measurement(direction.direction(), offset, time);
    let Ok(estimates) = link.link_state.delay_and_noise_estimate() else {
        return (None, None);
    };
    let est = Some((estimates.delay, estimates.noise));
    let from_external = pre.estimation_state.is_external_clock(direction.from_clock());
    if let Some(external_link_state) = &mut link.external_link_state {
        let offset_to_external = if from_external {
            offset.value - estimates.delay
        } else {
            -(offset.value - estimates.delay)
        };
        external_link_state.last_offsets.insert(offset_to_external);
        external_link_state.last_offset_uncertainty = offset.uncertainty;
        let our_window = link.offset_window(config, &pre.estimation_state);
        match pre.find_external_consensus_window(config) {
            None => (est, None),
            Some(c) => (est, Some(matches!(our_window, Some(w) if w.overlaps(c)))),
        }
    } else {
        (est, None)
    }
}
