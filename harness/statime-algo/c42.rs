// C42: drive the real EstimatorState<StdKalmanStorage<()>> on a history of operations.
//
// input tokens:  NC NL (a b)*NL T0 op...
//   NC clock ids are drawn from ClockId::new() and NL link ids from LinkId::new(pool[a], pool[b]);
//   the case refers to them by pool index.  T0 = start time (u128 decimal, 2^-64 s).  Operations:
//   P t | AF c x | AO c x | AS c d | M l fwd v u delay | XE c | RE c | AC c ov ou fv fu w | RC c
//   | AL l dv du decay | RL l | D          (x.. = f64 bit patterns in hex, d = i128 decimal)
//   every operation is applied the way lib.rs applies it: on a clone, replacing the state on Ok.
// output tokens: per operation  `; code time q...`  with code 0 = Ok, e<N> = AlgoError class,
//   p = panic; q = public queries of every pool clock (offset value/uncertainty, frequency
//   value/uncertainty, or `-` when the query fails) and of every pool link (delay value/uncertainty);
//   `D` additionally prints the raw state (`dump`); the raw state is printed once more at the end.
extern crate std;
use std::{format, string::String, string::ToString, vec::Vec};

use super::super::*;
use crate::storage::StdKalmanStorage;

type St = EstimatorState<StdKalmanStorage<()>>;

#[path = "/verif/harness/statime-algo/util.rs"]
mod util;
pub(crate) use util::*;

// raw state: time rows cols rows cols | clocks (pool index, base, wander) | externals | links | vector | matrix
pub(crate) fn dump<S: KalmanStorageBase>(st: &EstimatorState<S>, clocks: &[ClockId], links: &[LinkId]) -> String {
    let cidx = |id: ClockId| clocks.iter().position(|c| *c == id).map(|p| p as i64).unwrap_or(-1);
    let lidx = |id: LinkId| links.iter().position(|c| *c == id).map(|p| p as i64).unwrap_or(-1);
    let mut o: Vec<String> = Vec::new();
    o.push(format!("{}", u128_of_ts(st.time)));
    o.push(format!("{} {} {} {}", st.state.rows(), st.state.cols(), st.uncertainty.rows(), st.uncertainty.cols()));
    o.push(format!("{}", st.clock_info.0.len()));
    for c in st.clock_info.0.iter() {
        o.push(format!("{} {} {}", cidx(c.id), c.base_index, f_out(c.wander)));
    }
    o.push(format!("{}", st.external_clocks.0.len()));
    for c in st.external_clocks.0.iter() {
        o.push(format!("{}", cidx(*c)));
    }
    o.push(format!("{}", st.link_info.0.len()));
    for l in st.link_info.0.iter() {
        o.push(format!("{} {} {}", lidx(l.id), l.index, f_out(l.decay_rate)));
    }
    let n = st.state.rows();
    if st.state.cols() == 1 {
        for r in 0..n {
            o.push(f_out(st.state[(r, 0)]));
        }
    }
    for r in 0..st.uncertainty.rows() {
        for c in 0..st.uncertainty.cols() {
            o.push(f_out(st.uncertainty[(r, c)]));
        }
    }
    o.join(" ")
}

impl<S: KalmanStorageBase> EstimatorState<S> {
    // reachable from the other harness modules of the crate (the hook modules themselves are private)
    pub(crate) fn verif_dump(&self, clocks: &[ClockId], links: &[LinkId]) -> String {
        dump(self, clocks, links)
    }
}

fn uv(r: Result<UncertainValue, AlgoError>) -> String {
    match r {
        Ok(v) => format!("{} {}", f_out(v.value), f_out(v.uncertainty)),
        Err(_) => "-".to_string(),
    }
}

fn queries(st: &St, clocks: &[ClockId], links: &[LinkId]) -> String {
    let mut o: Vec<String> = Vec::new();
    o.push(format!("{}", u128_of_ts(st.current_time())));
    for c in clocks {
        o.push(uv(st.clock_offset(*c)));
        o.push(uv(st.clock_frequency(*c)));
    }
    for l in links {
        o.push(uv(st.link_delay(*l)));
    }
    o.join(" ")
}

#[test]
fn verif_c42_driver() {
    crate::verif_hook::drive(|t| {
        let mut it = t.iter().copied();
        let mut next = move || it.next().unwrap_or("");
        let nc: usize = next().parse().unwrap();
        let nl: usize = next().parse().unwrap();
        let clocks: Vec<ClockId> = (0..nc).map(|_| ClockId::new()).collect();
        let mut links: Vec<LinkId> = Vec::new();
        for _ in 0..nl {
            let a: usize = next().parse().unwrap();
            let b: usize = next().parse().unwrap();
            links.push(LinkId::new(clocks[a], clocks[b]).unwrap());
        }
        let t0: u128 = next().parse().unwrap();
        let mut st: St = EstimatorState::empty(ts_of_u128(t0));
        let mut out: Vec<String> = Vec::new();
        loop {
            let op = next();
            if op.is_empty() {
                break;
            }
            let mut want_dump = false;
            let cur = st.clone();
            let r: std::thread::Result<Result<St, AlgoError>> =
                std::panic::catch_unwind(std::panic::AssertUnwindSafe(|| match op {
                    "P" => {
                        let x: u128 = next().parse().unwrap();
                        cur.progress_time(ts_of_u128(x))
                    }
                    "AF" => {
                        let c: usize = next().parse().unwrap();
                        cur.absorb_frequency_steer(clocks[c], f_of(next()))
                    }
                    "AO" => {
                        let c: usize = next().parse().unwrap();
                        cur.absorb_offset_change(clocks[c], f_of(next()))
                    }
                    "AS" => {
                        let c: usize = next().parse().unwrap();
                        let d: i128 = next().parse().unwrap();
                        cur.absorb_system_clock_offset_change(clocks[c], dur_of_i128(d))
                    }
                    "M" => {
                        let l: usize = next().parse().unwrap();
                        let fwd = next() == "1";
                        let v = f_of(next());
                        let u = f_of(next());
                        let delay = next() == "1";
                        let dir = if fwd { links[l].forward() } else { links[l].reverse() };
                        cur.measurement(dir, UncertainValue { value: v, uncertainty: u }, delay)
                    }
                    "XE" => {
                        let c: usize = next().parse().unwrap();
                        cur.add_external_clock(clocks[c])
                    }
                    "RE" => {
                        let c: usize = next().parse().unwrap();
                        cur.remove_external_clock(clocks[c])
                    }
                    "AC" => {
                        let c: usize = next().parse().unwrap();
                        let ov = f_of(next());
                        let ou = f_of(next());
                        let fv = f_of(next());
                        let fu = f_of(next());
                        let w = f_of(next());
                        cur.add_clock(
                            clocks[c],
                            UncertainValue { value: ov, uncertainty: ou },
                            UncertainValue { value: fv, uncertainty: fu },
                            w,
                        )
                    }
                    "RC" => {
                        let c: usize = next().parse().unwrap();
                        cur.remove_clock(clocks[c])
                    }
                    "AL" => {
                        let l: usize = next().parse().unwrap();
                        let dv = f_of(next());
                        let du = f_of(next());
                        let dc = f_of(next());
                        cur.add_link(links[l], UncertainValue { value: dv, uncertainty: du }, dc)
                    }
                    "RL" => {
                        let l: usize = next().parse().unwrap();
                        cur.remove_link(links[l])
                    }
                    "D" => {
                        want_dump = true;
                        Ok(cur)
                    }
                    other => panic!("bad op {}", other),
                }));
            let code = match r {
                Ok(Ok(s)) => {
                    st = s;
                    "0"
                }
                Ok(Err(e)) => err_code(&e),
                Err(_) => "p",
            };
            out.push(format!("; {} {}", code, queries(&st, &clocks, &links)));
            if want_dump {
                out.push(format!("D {}", dump(&st, &clocks, &links)));
            }
        }
        out.push(format!("; F {}", dump(&st, &clocks, &links)));
        out.join(" ")
    });
}
