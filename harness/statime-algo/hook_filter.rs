// hook file for statime-algo/src/filter.rs: declares the per-property harness modules
#[cfg(any(verif_all, verif_c43))]
#[path = "/verif/harness/statime-algo/c43f.rs"]
pub(crate) mod c43f;
