// hook file for statime-algo/src/filter.rs: declares the per-property harness modules
