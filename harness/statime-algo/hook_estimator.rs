// hook file for statime-algo/src/estimator.rs: declares the per-property harness modules
#[cfg(any(verif_all, verif_c42, verif_c43))]
#[path = "/verif/harness/statime-algo/c42.rs"]
pub(crate) mod c42;
