// hook file for statime-algo/src/estimator.rs: declares the per-property harness modules
