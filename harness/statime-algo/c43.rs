// C43: drive the real KalmanController<StdKalmanStorage<Mock>, Mock> (and, directly, its
// KalmanControllerState::steer_clocks) with recording mock clocks.
//
// input tokens: T0 maxf wander op...      (clock 0 = the system clock)
//   XE | RE c | AC maxf wander | ACX ov ou fv fu w maxf | RC c | TL a b decay | UL a b | DL l
//   | ED l rootdelay usable | NOW k t1..tk | CK c freq max | M l fwd send recv unc | S | FO c x
//   | FF c x | P t | Q
//   clocks and links are numbered in the order of their successful creation.
// output tokens: per operation `; code events...`; events: gf:c:x mf:c:x (answers of get_frequency /
//   max_frequency), sf:c:x (set_frequency), st:c:d (step_clock), or:<delay>:<noise>:<consensus>
//   (measurement oracle, see c43f.rs), pre:c:off:freq / post:c:off:freq (filter estimates around a
//   direct steer), and for Q: the controller's queries, the filter's own frequency query, the link
//   list and the raw estimator state.
extern crate std;
use std::{
    format,
    string::{String, ToString},
    sync::{Arc, Mutex},
    vec::Vec,
};

use super::super::*;
#[path = "/verif/harness/statime-algo/util.rs"]
mod util;
use util::*;
use crate::storage::{StateMutex, StdKalmanStorage};

struct Shared {
    now: Vec<u128>,
    log: Vec<String>,
}

#[derive(Clone)]
struct Mock {
    idx: usize,
    st: Arc<Mutex<(f64, f64)>>, // (frequency, max frequency)
    sh: Arc<Mutex<Shared>>,
}

impl Mock {
    fn cur_now(&self, pop: bool) -> Timestamp<TAI> {
        let mut sh = self.sh.lock().unwrap();
        let v = sh.now[0];
        if pop && sh.now.len() > 1 {
            sh.now.remove(0);
        }
        ts_of_u128(v)
    }
}

impl Clock for Mock {
    fn now(&self) -> Result<Timestamp<TAI>, ClockError> {
        Ok(self.cur_now(true))
    }
    fn set_frequency(&self, freq: f64) -> Result<Timestamp<TAI>, ClockError> {
        self.st.lock().unwrap().0 = freq;
        self.sh.lock().unwrap().log.push(format!("sf:{}:{}", self.idx, f_out(freq)));
        Ok(self.cur_now(false))
    }
    fn get_frequency(&self) -> Result<f64, ClockError> {
        let f = self.st.lock().unwrap().0;
        self.sh.lock().unwrap().log.push(format!("gf:{}:{}", self.idx, f_out(f)));
        Ok(f)
    }
    fn max_frequency(&self) -> Result<f64, ClockError> {
        let f = self.st.lock().unwrap().1;
        self.sh.lock().unwrap().log.push(format!("mf:{}:{}", self.idx, f_out(f)));
        Ok(f)
    }
    fn step_clock(&self, offset: Duration) -> Result<Timestamp<TAI>, ClockError> {
        self.sh.lock().unwrap().log.push(format!("st:{}:{}", self.idx, i128_of_dur(offset)));
        Ok(self.cur_now(false))
    }
    fn error_estimate_update(&self, _e: Duration, _m: Duration) -> Result<(), ClockError> {
        Ok(())
    }
    fn leap_update(&self, _l: LeapStatus) -> Result<(), ClockError> {
        Ok(())
    }
    fn synchronization_update(&self, _s: bool) -> Result<(), ClockError> {
        Ok(())
    }
}

type Stor = StdKalmanStorage<Mock>;
type Ctl = KalmanController<Stor, Mock>;

fn uv(r: Result<UncertainValue, AlgoError>) -> String {
    match r {
        Ok(v) => format!("{} {}", f_out(v.value), f_out(v.uncertainty)),
        Err(_) => "-".to_string(),
    }
}

fn config() -> LinkFilterConfig {
    LinkFilterConfig {
        select_offset_uncertainty_window: 2.0,
        select_link_uncertainty_window: 2.0,
        select_delay_uncertainty_window: 0.7,
        select_max_window_size: 1.0,
        minimum_agreeing_sources: 1,
    }
}

#[test]
fn verif_c43_driver() {
    crate::verif_hook::drive(|t| {
        let mut it = t.iter().copied();
        let mut next = move || it.next().unwrap_or("");
        let t0: u128 = next().parse().unwrap();
        let maxf = f_of(next());
        let wander = f_of(next());
        let sh = Arc::new(Mutex::new(Shared { now: std::vec![t0], log: Vec::new() }));
        let mk = |idx: usize, max: f64| Mock { idx, st: Arc::new(Mutex::new((0.0, max))), sh: sh.clone() };
        let mut mocks: Vec<Mock> = std::vec![mk(0, maxf)];
        let (ctl, id0) = Ctl::new(mocks[0].clone(), wander, config()).unwrap();
        let ctl = Arc::new(ctl);
        let mut clocks: Vec<ClockId> = std::vec![id0];
        let mut link_ids: Vec<LinkId> = Vec::new();
        let mut links: Vec<Option<KalmanLink<Arc<Ctl>, Stor, Mock>>> = Vec::new();
        let mut out: Vec<String> = Vec::new();
        sh.lock().unwrap().log.clear();
        loop {
            let op = next();
            if op.is_empty() {
                break;
            }
            let mut extra: Vec<String> = Vec::new();
            let r: std::thread::Result<Result<(), AlgoError>> =
                std::panic::catch_unwind(std::panic::AssertUnwindSafe(|| match op {
                    "XE" => ctl.add_external_clock().map(|id| {
                        clocks.push(id);
                        mocks.push(mk(clocks.len() - 1, 0.0));
                    }),
                    "RE" => {
                        let c: usize = next().parse().unwrap();
                        ctl.remove_external_clock(clocks[c])
                    }
                    "AC" => {
                        let mx = f_of(next());
                        let w = f_of(next());
                        let m = mk(clocks.len(), mx);
                        ctl.add_clock(m.clone(), w).map(|id| {
                            clocks.push(id);
                            mocks.push(m);
                        })
                    }
                    "ACX" => {
                        let ov = f_of(next());
                        let ou = f_of(next());
                        let fv = f_of(next());
                        let fu = f_of(next());
                        let w = f_of(next());
                        let mx = f_of(next());
                        let m = mk(clocks.len(), mx);
                        ctl.state.with_mut(|s| {
                            let (filter, id) = s.filter.clone().add_clock(
                                UncertainValue { value: ov, uncertainty: ou },
                                UncertainValue { value: fv, uncertainty: fu },
                                w,
                            )?;
                            s.filter = filter;
                            s.clocks.push(ClockInfo { id, clock: m.clone() });
                            clocks.push(id);
                            mocks.push(m);
                            Ok(())
                        })
                    }
                    "RC" => {
                        let c: usize = next().parse().unwrap();
                        ctl.remove_clock(clocks[c])
                    }
                    "TL" => {
                        let a: usize = next().parse().unwrap();
                        let b: usize = next().parse().unwrap();
                        let d = f_of(next());
                        Ctl::create_tracked_link(ctl.clone(), clocks[a], clocks[b], d).map(|l| {
                            link_ids.push(l.link_id);
                            links.push(Some(l));
                        })
                    }
                    "UL" => {
                        let a: usize = next().parse().unwrap();
                        let b: usize = next().parse().unwrap();
                        Ctl::create_untracked_link(ctl.clone(), clocks[a], clocks[b]).map(|l| {
                            link_ids.push(l.link_id);
                            links.push(Some(l));
                        })
                    }
                    "DL" => {
                        let l: usize = next().parse().unwrap();
                        if l < links.len() {
                            links[l] = None;
                        } else {
                            extra.push("skip".to_string());
                        }
                        Ok(())
                    }
                    "ED" => {
                        let l: usize = next().parse().unwrap();
                        let rd = f_of(next());
                        let usable = next() == "1";
                        if l >= links.len() {
                            extra.push("skip".to_string());
                            return Ok(());
                        }
                        match &links[l] {
                            Some(k) => k.external_data_update(Duration::from_f64_seconds(rd), None, usable),
                            None => {
                                extra.push("skip".to_string()); // the KalmanLink no longer exists
                                Ok(())
                            }
                        }
                    }
                    "NOW" => {
                        let k: usize = next().parse().unwrap();
                        // CUR = the filter's current time (a steer without time progression)
                        let cur = ctl.state.with_ref(|s| u128_of_ts(s.filter.verif_est().current_time()));
                        let v: Vec<u128> = (0..k)
                            .map(|_| {
                                let tok = next();
                                if tok == "CUR" { cur } else { tok.parse().unwrap() }
                            })
                            .collect();
                        extra.push(format!("nw:{}", v.iter().map(|x| format!("{}", x)).collect::<Vec<String>>().join(":")));
                        sh.lock().unwrap().now = v;
                        Ok(())
                    }
                    "CK" => {
                        let c: usize = next().parse().unwrap();
                        let f = f_of(next());
                        let mx = f_of(next());
                        *mocks[c].st.lock().unwrap() = (f, mx);
                        Ok(())
                    }
                    "M" => {
                        let l: usize = next().parse().unwrap();
                        let fwd = next() == "1";
                        let send: u128 = next().parse().unwrap();
                        let recv: u128 = next().parse().unwrap();
                        let unc: i128 = next().parse().unwrap();
                        if l >= links.len() {
                            extra.push("skip".to_string());
                            return Ok(());
                        }
                        if links[l].is_none() {
                            extra.push("skip".to_string()); // the KalmanLink no longer exists
                            return Ok(());
                        }
                        let dir = if fwd { Direction::Forward } else { Direction::Reverse };
                        let m = Measurement {
                            send_timestamp: ts_of_u128(send),
                            recv_timestamp: ts_of_u128(recv),
                            uncertainty: dur_of_i128(unc),
                        };
                        // the oracle of the model, from the filter as it will be after the time progression
                        let now1 = ts_of_u128(sh.lock().unwrap().now[0]);
                        ctl.state.with_ref(|s| {
                            if let Ok(pre) = s.filter.clone().progress_time(now1) {
                                let o = pre.verif_oracle(
                                    &s.filter_config,
                                    DirectedLinkId::new(link_ids[l], dir),
                                    UncertainValue {
                                        value: (m.recv_timestamp - m.send_timestamp).as_seconds(),
                                        uncertainty: m.uncertainty.as_seconds(),
                                    },
                                );
                                extra.push(format!(
                                    "or:{}:{}",
                                    match o.0 {
                                        Some((d, n)) => format!("{}:{}", f_out(d), f_out(n)),
                                        None => "-:-".to_string(),
                                    },
                                    match o.1 {
                                        None => "-",
                                        Some(true) => "1",
                                        Some(false) => "0",
                                    }
                                ));
                            }
                        });
                        match &links[l] {
                            Some(k) => k.measurement(m, dir),
                            None => Err(AlgoError::UnknownLink(link_ids[l])),
                        }
                    }
                    "S" => ctl.state.with_mut(|s| {
                        for (i, c) in s.clocks.iter().enumerate() {
                            let _ = i;
                            let idx = clocks.iter().position(|x| *x == c.id).unwrap();
                            extra.push(format!(
                                "pre:{}:{}:{}",
                                idx,
                                s.filter.clock_offset(c.id).map(|v| f_out(v.value)).unwrap_or("-".to_string()),
                                s.filter.clock_frequency(c.id).map(|v| f_out(v.value)).unwrap_or("-".to_string())
                            ));
                        }
                        let r = s.steer_clocks();
                        for c in s.clocks.iter() {
                            let idx = clocks.iter().position(|x| *x == c.id).unwrap();
                            extra.push(format!(
                                "post:{}:{}:{}",
                                idx,
                                s.filter.clock_offset(c.id).map(|v| f_out(v.value)).unwrap_or("-".to_string()),
                                s.filter.clock_frequency(c.id).map(|v| f_out(v.value)).unwrap_or("-".to_string())
                            ));
                        }
                        r
                    }),
                    "FO" => {
                        let c: usize = next().parse().unwrap();
                        let x = f_of(next());
                        ctl.state.with_mut(|s| {
                            s.filter = s.filter.clone().absorb_offset_change(clocks[c], x)?;
                            Ok(())
                        })
                    }
                    "FF" => {
                        let c: usize = next().parse().unwrap();
                        let x = f_of(next());
                        ctl.state.with_mut(|s| {
                            s.filter = s.filter.clone().absorb_frequency_steer(clocks[c], x)?;
                            Ok(())
                        })
                    }
                    "P" => {
                        let x: u128 = next().parse().unwrap();
                        ctl.state.with_mut(|s| {
                            s.filter = s.filter.clone().progress_time(ts_of_u128(x))?;
                            Ok(())
                        })
                    }
                    "Q" => {
                        let mut q: Vec<String> = std::vec!["Q".to_string()];
                        for c in clocks.iter() {
                            q.push(uv(ctl.clock_offset(*c)));
                            q.push(uv(ctl.clock_frequency(*c)));
                            q.push(uv(ctl.state.with_ref(|s| s.filter.clock_frequency(*c))));
                        }
                        ctl.state.with_ref(|s| {
                            q.push("L".to_string());
                            for (id, active, tracked, external) in s.filter.verif_links() {
                                q.push(format!(
                                    "{} {} {} {}",
                                    link_ids.iter().position(|x| *x == id).map(|p| p as i64).unwrap_or(-1),
                                    active as u8,
                                    tracked as u8,
                                    external as u8
                                ));
                            }
                            q.push("C".to_string());
                            for c in s.clocks.iter() {
                                q.push(format!("{}", clocks.iter().position(|x| *x == c.id).unwrap()));
                            }
                            q.push("D".to_string());
                            q.push(s.filter.verif_est().verif_dump(&clocks, &link_ids));
                        });
                        extra.push(q.join(" "));
                        Ok(())
                    }
                    other => panic!("bad op {}", other),
                }));
            let code = match r {
                Ok(Ok(())) => "0",
                Ok(Err(e)) => err_code(&e),
                Err(_) => "p",
            };
            if op == "M" || op == "S" {
                // a NOW script is valid for one operation: keep only its last value
                let mut s = sh.lock().unwrap();
                let last = *s.now.last().unwrap();
                s.now = std::vec![last];
            }
            let log: Vec<String> = sh.lock().unwrap().log.drain(..).collect();
            out.push(format!("; {} {} {}", code, log.join(" "), extra.join(" ")));
            if code == "p" {
                // a panic inside with_mut poisons the controller's RwLock: every later call (and the
                // Drop of the links) would panic on the poisoned lock; the history ends here
                out.push("; X".to_string());
                break;
            }
        }
        std::mem::forget(links);
        out.join(" ")
    });
}
