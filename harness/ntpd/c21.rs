// C21 (daemon part): drive `impl ServerStatHandler for ServerStats` with a sequence of registrations and
// read the eleven counters back.
// input tokens: { <nts 0|1> <reason 0..4> <response 0..3> }*   (codes as in harness/ntp-proto/p2a_common.rs)
// output: received accepted denied ignored rate_limited response_send_errors nts_received nts_accepted
//         nts_denied nts_rate_limited nts_nak
use super::super::*;

fn reason_of(c: &str) -> ServerReason {
    match c {
        "0" => ServerReason::RateLimit,
        "1" => ServerReason::ParseError,
        "2" => ServerReason::InvalidCrypto,
        "3" => ServerReason::InternalError,
        _ => ServerReason::Policy,
    }
}

fn response_of(c: &str) -> ServerResponse {
    match c {
        "0" => ServerResponse::NTSNak,
        "1" => ServerResponse::Deny,
        "2" => ServerResponse::Ignore,
        _ => ServerResponse::ProvideTime,
    }
}

#[test]
fn verif_c21_driver() {
    crate::verif_hook::drive(|t| {
        let mut stats = ServerStats::default();
        for g in t.chunks(3) {
            stats.register(4, g[0] == "1", reason_of(g[1]), response_of(g[2]));
        }
        format!(
            "{} {} {} {} {} {} {} {} {} {} {}",
            stats.received_packets.get(),
            stats.accepted_packets.get(),
            stats.denied_packets.get(),
            stats.ignored_packets.get(),
            stats.rate_limited_packets.get(),
            stats.response_send_errors.get(),
            stats.nts_received_packets.get(),
            stats.nts_accepted_packets.get(),
            stats.nts_denied_packets.get(),
            stats.nts_rate_limited_packets.get(),
            stats.nts_nak_packets.get()
        )
    });
}
