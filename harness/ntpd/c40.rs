// C40: the GPSd socket sample path of ntpd/src/daemon/sock_source.rs.
// ops (one case per line):
//   D <size|-1> <hex 40 bytes>     deserialize_sample(Ok(size) | Err(io), buf)
//        -> "0 <offset bits> <pulse> <leap> <magic>"  |  "<error code>"
//   S <time u64> <hex datagram>    the real SockSourceTask on a Unix datagram socket with a
//        scripted clock and a recording source controller; the datagram is followed by a
//        valid sentinel sample (told apart by its leap value)
//        -> "none" | "<sender_ts> <receiver_ts> <leap code>" per measurement handed on | "dead"
// error codes: IOError 1, SliceError 2, WrongSize 3, WrongMagic 4, WrongPulse 5,
// InvalidOffset 6 (read from the variant's Debug name, so the harness builds with and without it)
use super::super::*;
use ntp_proto::{NtpTimestamp, ObservableSourceTimedata, PollInterval};
use std::collections::HashMap;
use std::sync::atomic::{AtomicU64, Ordering};
use std::sync::{Arc, Mutex, RwLock};

fn err_code(e: &SampleError) -> i32 {
    let d = format!("{:?}", e);
    let name = d.split('(').next().unwrap_or("");
    match name {
        "IOError" => 1,
        "SliceError" => 2,
        "WrongSize" => 3,
        "WrongMagic" => 4,
        "WrongPulse" => 5,
        "InvalidOffset" => 6,
        _ => 99,
    }
}

fn ts_of(raw: u64) -> NtpTimestamp {
    serde_json::from_str(&format!("{{\"timestamp\":{}}}", raw)).unwrap()
}

fn raw_of(ts: NtpTimestamp) -> u64 {
    let d = format!("{:?}", ts);
    d.trim_start_matches("NtpTimestamp(").trim_end_matches(')').parse().unwrap()
}

fn leap_code(l: NtpLeapIndicator) -> u8 {
    match l {
        NtpLeapIndicator::NoWarning => 0,
        NtpLeapIndicator::Leap61 => 1,
        NtpLeapIndicator::Leap59 => 2,
        NtpLeapIndicator::Unknown => 3,
        NtpLeapIndicator::Unsynchronized => 4,
    }
}

#[derive(Clone)]
struct ScriptClock(Arc<AtomicU64>);

impl NtpClock for ScriptClock {
    type Error = std::io::Error;
    fn now(&self) -> Result<NtpTimestamp, Self::Error> {
        Ok(ts_of(self.0.load(Ordering::SeqCst)))
    }
    fn set_frequency(&self, _freq: f64) -> Result<NtpTimestamp, Self::Error> {
        self.now()
    }
    fn get_frequency(&self) -> Result<f64, Self::Error> {
        Ok(0.0)
    }
    fn step_clock(&self, _offset: NtpDuration) -> Result<NtpTimestamp, Self::Error> {
        self.now()
    }
    fn disable_ntp_algorithm(&self) -> Result<(), Self::Error> {
        Ok(())
    }
    fn error_estimate_update(&self, _e: NtpDuration, _m: NtpDuration) -> Result<(), Self::Error> {
        Ok(())
    }
    fn status_update(&self, _l: NtpLeapIndicator) -> Result<(), Self::Error> {
        Ok(())
    }
}

type Rec = Arc<Mutex<Vec<(u64, u64, u8)>>>;
struct Recorder(Rec);

impl SourceController for Recorder {
    fn handle_measurement(&mut self, m: Measurement) {
        self.0.lock().unwrap().push((raw_of(m.sender_ts), raw_of(m.receiver_ts), leap_code(m.leap)));
    }
    fn set_usable(&mut self, _usable: bool) {}
    fn desired_poll_interval(&self) -> PollInterval {
        PollInterval::default()
    }
    fn observe(&self) -> ObservableSourceTimedata {
        ObservableSourceTimedata::default()
    }
}

struct Rig {
    _rt: tokio::runtime::Runtime,
    handle: tokio::task::JoinHandle<()>,
    sock: std::os::unix::net::UnixDatagram,
    time: Arc<AtomicU64>,
    rec: Rec,
    _keep: Box<dyn std::any::Any>,
}

fn sample_bytes(offset: f64, pulse: i32, leap: i32, magic: i32) -> Vec<u8> {
    let mut b = vec![0u8; 40];
    b[16..24].copy_from_slice(&offset.to_le_bytes());
    b[24..28].copy_from_slice(&pulse.to_le_bytes());
    b[28..32].copy_from_slice(&leap.to_le_bytes());
    b[36..40].copy_from_slice(&magic.to_le_bytes());
    b
}

static RIG_COUNTER: AtomicU64 = AtomicU64::new(0);

fn new_rig() -> Rig {
    let rt = tokio::runtime::Builder::new_multi_thread().worker_threads(1).enable_all().build().unwrap();
    let time = Arc::new(AtomicU64::new(0));
    let rec: Rec = Arc::new(Mutex::new(Vec::new()));
    let path = std::env::temp_dir().join(format!(
        "verif-c40-{}-{}",
        std::process::id(),
        RIG_COUNTER.fetch_add(1, Ordering::SeqCst)
    ));
    let (msg_for_system_sender, keep) = tokio::sync::mpsc::channel(1);
    let handle = {
        let _g = rt.enter();
        SockSourceTask::spawn(
            ClockId::new(),
            path.clone(),
            ScriptClock(time.clone()),
            SourceChannels { msg_for_system_sender, source_snapshots: Arc::new(RwLock::new(HashMap::new())) },
            OneWaySource::new(Recorder(rec.clone())),
        )
    };
    let sock = std::os::unix::net::UnixDatagram::unbound().unwrap();
    sock.connect(&path).unwrap();
    Rig { _rt: rt, handle, sock, time, rec, _keep: Box::new(keep) }
}

fn run_socket(rig: &mut Option<Rig>, time: u64, dgram: &[u8]) -> String {
    if rig.as_ref().map(|r| r.handle.is_finished()).unwrap_or(true) {
        *rig = Some(new_rig());
    }
    let r = rig.as_mut().unwrap();
    r.time.store(time, Ordering::SeqCst);
    r.rec.lock().unwrap().clear();
    // what leap indicator would the datagram's own measurement carry?
    let own_leap = if dgram.len() >= 32 {
        match i32::from_le_bytes(dgram[28..32].try_into().unwrap()) {
            0 => 0,
            1 => 1,
            2 => 2,
            _ => 3,
        }
    } else {
        3
    };
    let sentinel_leap: i32 = if own_leap == 1 { 2 } else { 1 };
    if r.sock.send(dgram).is_err() {
        return "senderr".to_string();
    }
    r.sock.send(&sample_bytes(1.0, 0, sentinel_leap, SOCK_MAGIC)).unwrap();
    let t0 = std::time::Instant::now();
    loop {
        {
            let g = r.rec.lock().unwrap();
            if let Some(pos) = g.iter().position(|m| m.2 == sentinel_leap as u8) {
                let before: Vec<String> = g[..pos].iter().map(|m| format!("{} {} {}", m.0, m.1, m.2)).collect();
                return if before.is_empty() { "none".to_string() } else { before.join(" ") };
            }
        }
        if r.handle.is_finished() || t0.elapsed().as_secs() > 10 {
            return "dead".to_string();
        }
        std::thread::yield_now();
    }
}

#[test]
fn verif_c40_driver() {
    let mut rig: Option<Rig> = None;
    crate::verif_hook::drive(|t| match t[0] {
        "D" => {
            let size: i64 = t[1].parse().unwrap();
            let bytes = crate::verif_hook::unhex(t[2]);
            let mut buf = [0u8; SOCK_SAMPLE_SIZE];
            buf.copy_from_slice(&bytes);
            let result = if size < 0 { Err(std::io::Error::other("scripted")) } else { Ok(size as usize) };
            match deserialize_sample(result, buf) {
                Ok(s) => format!("0 {} {} {} {}", s.offset.to_bits(), s.pulse, s.leap, s.magic),
                Err(e) => format!("{}", err_code(&e)),
            }
        }
        "S" => {
            let time: u64 = t[1].parse().unwrap();
            let bytes = crate::verif_hook::unhex(t[2]);
            run_socket(&mut rig, time, &bytes)
        }
        _ => "badop".to_string(),
    });
}
