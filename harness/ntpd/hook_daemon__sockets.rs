// hook file for ntpd/src/daemon/sockets.rs: declares the per-property harness modules
