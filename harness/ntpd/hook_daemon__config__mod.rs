// hook file for ntpd/src/daemon/config/mod.rs: declares the per-property harness modules
#[cfg(any(verif_all, verif_c39))]
#[path = "/verif/harness/ntpd/c39.rs"]
mod c39;
