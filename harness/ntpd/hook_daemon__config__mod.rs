// hook file for ntpd/src/daemon/config/mod.rs: declares the per-property harness modules
