// hook file for ntpd/src/daemon/spawn/pool.rs: declares the per-property harness modules
