// hook file for ntpd/src/daemon/spawn/pool.rs: declares the per-property harness modules
#[cfg(any(verif_all, verif_c35))]
#[path = "/verif/harness/ntpd/c35.rs"]
mod c35;
