// C16 (daemon side): the real ServerTask::serve loop on a loopback UDP socket.
// One case = one request datagram (hex).  The harness starts the real server task, sends the
// request followed by a plain 48-byte sentinel poll with a distinctive transmit timestamp and
// collects replies until the sentinel's answer arrives.
// output: "<request length> <reply length or -1 if the request got no reply> <sentinel reply length>"
// (the reply to a request is recognised by the echoed origin timestamp = the request's transmit
// timestamp bytes 40..48, which every generated request sets to a per-case unique value)
use super::super::*;
use std::net::SocketAddr;
use std::sync::Arc;
use std::time::Duration;

use ntp_proto::{KeySetProvider, NtpDuration, NtpLeapIndicator, NtpTimestamp};
use timestamped_socket::socket::GeneralTimestampMode;

#[derive(Debug, Clone, Default)]
struct VClock;

impl NtpClock for VClock {
    type Error = std::convert::Infallible;
    fn now(&self) -> Result<NtpTimestamp, Self::Error> {
        Ok(NtpTimestamp::from_seconds_nanos_since_ntp_era(1000, 1000))
    }
    fn set_frequency(&self, _freq: f64) -> Result<NtpTimestamp, Self::Error> {
        self.now()
    }
    fn get_frequency(&self) -> Result<f64, Self::Error> {
        Ok(0.0)
    }
    fn step_clock(&self, _offset: NtpDuration) -> Result<NtpTimestamp, Self::Error> {
        self.now()
    }
    fn disable_ntp_algorithm(&self) -> Result<(), Self::Error> {
        Ok(())
    }
    fn error_estimate_update(&self, _e: NtpDuration, _m: NtpDuration) -> Result<(), Self::Error> {
        Ok(())
    }
    fn status_update(&self, _l: NtpLeapIndicator) -> Result<(), Self::Error> {
        Ok(())
    }
}

#[test]
fn verif_c16_driver() {
    let rt = tokio::runtime::Builder::new_current_thread().enable_all().build().unwrap();
    let port = 21000 + (std::process::id() % 20000) as u16;
    let (join, mut socket) = rt.block_on(async {
        let config = ServerConfig::from(SocketAddr::new("127.0.0.1".parse().unwrap(), port));
        let server_info = Arc::default();
        let (_tx, keyset) = tokio::sync::watch::channel(KeySetProvider::new(1).get());
        // keep the sender alive for the lifetime of the task
        std::mem::forget(_tx);
        let server = Server::new_internal(config.clone().into(), VClock, server_info, keyset.borrow().clone());
        let join = ServerTask::spawn(server, config, ServerStats::default(), keyset, Duration::from_secs(0));
        let socket = open_ip(
            SocketAddr::new("127.0.0.1".parse().unwrap(), 0),
            GeneralTimestampMode::SoftwareRecv,
            false,
        )
        .unwrap();
        let socket = socket.connect(SocketAddr::new("127.0.0.1".parse().unwrap(), port)).unwrap();
        (join, socket)
    });
    let mut counter: u64 = 0;
    // when the server does not even answer the sentinel of the first case (no loopback UDP in this
    // environment), the remaining cases are not attempted: each would only wait for its timeouts
    let mut dead = false;
    crate::verif_hook::drive(|t| {
        let req = crate::verif_hook::unhex(t[0]);
        counter += 1;
        if dead {
            return format!("{} -1 -1", req.len());
        }
        let mut plain = vec![0u8; 48];
        plain[0] = 0x23;
        plain[40..48].copy_from_slice(&(0xfeed_0000_0000_0000u64 | counter).to_be_bytes());
        let want_origin: Vec<u8> = if req.len() >= 48 { req[40..48].to_vec() } else { vec![] };
        rt.block_on(async {
            socket.send(&req).await.unwrap();
            socket.send(&plain).await.unwrap();
            let mut reply: i64 = -1;
            let mut sentinel: i64 = -1;
            let mut attempts = 0;
            loop {
                let mut buf = [0u8; 2048];
                let received = tokio::time::timeout(Duration::from_millis(1500), socket.recv(&mut buf)).await;
                let Ok(received) = received else {
                    attempts += 1;
                    if attempts >= 8 {
                        break;
                    }
                    socket.send(&plain).await.unwrap();
                    continue;
                };
                let length = received.unwrap().bytes_read;
                let head = &buf[..length.min(48)];
                if head.windows(8).any(|w| w == &plain[40..48]) {
                    sentinel = length as i64;
                    break;
                } else if !want_origin.is_empty() && head.windows(8).any(|w| w == &want_origin[..]) {
                    reply = length as i64;
                }
            }
            if counter == 1 && sentinel < 0 {
                dead = true;
            }
            format!("{} {} {}", req.len(), reply, sentinel)
        })
    });
    join.abort();
}
