// C38: the observation socket framing (sockets.rs write_json / read_json) and the payload of
// observer.rs (ObservableState), over in-memory streams with a byte-counting reader.
// ops:
//   R <header hex, 0..8 bytes, - = none> <kind j|g> <len>   read_json::<serde_json::Value> on header ++ payload,
//        payload = valid JSON ('[' spaces ']', or "7" for len 1) or garbage (0xff) of <len> bytes
//        -> "<class> <consumed> <buffer len> <oracle>"  oracle: 1/0 = serde_json accepts the announced slice
//           and read_json returned that value, - = the announced slice is not available
//   S <hex JSON of an ObservableState>   parse, write_json, read_json::<ObservableState>
//        -> "0 <header value> <bytes written> <payload = serde_json::to_vec> <all non-duration fields equal> (before after)*"
//   D <raw i64>*    the same for a Vec<NtpDuration> -> "0 <header> <written> <payload ok> after*"
//   X <f64 bits hex>*   the same for a Vec<f64>    -> "0 <header> <written> <payload ok> afterbits*"
// classes: 0 ok, 1 UnexpectedEof, 2 "message too large", 3 "cannot be represented", 4 other InvalidInput, 9 other
use super::super::*;
use crate::daemon::sockets::{read_json, write_json};
use ntp_proto::NtpDuration;

fn rt() -> tokio::runtime::Runtime {
    tokio::runtime::Builder::new_current_thread().build().unwrap()
}

fn class(e: &std::io::Error) -> u8 {
    match e.kind() {
        std::io::ErrorKind::UnexpectedEof => 1,
        std::io::ErrorKind::InvalidInput => {
            let m = e.to_string();
            if m == "message too large" {
                2
            } else if m == "message size cannot be represented" {
                3
            } else {
                4
            }
        }
        _ => 9,
    }
}

fn ts(raw: u64) -> NtpTimestamp {
    serde_json::from_str(&format!("{{\"timestamp\":{}}}", raw)).unwrap()
}

fn dur(raw: i64) -> NtpDuration {
    ts(raw as u64) - ts(0)
}

fn raw(d: NtpDuration) -> i64 {
    let s = format!("{:?}", ts(0) + d);
    let u: u64 = s.trim_start_matches("NtpTimestamp(").trim_end_matches(')').parse().unwrap();
    u as i64
}

fn durations(s: &mut ObservableState) -> Vec<&mut NtpDuration> {
    let mut v: Vec<&mut NtpDuration> = Vec::new();
    let t = &mut s.system.time_snapshot;
    v.push(&mut t.precision);
    v.push(&mut t.root_delay);
    v.push(&mut t.accumulated_steps);
    if let Some(x) = t.accumulated_steps_threshold.as_mut() {
        v.push(x);
    }
    for src in s.sources.iter_mut() {
        let d = &mut src.timedata;
        v.push(&mut d.offset);
        v.push(&mut d.uncertainty);
        v.push(&mut d.delay);
        v.push(&mut d.remote_delay);
        v.push(&mut d.remote_uncertainty);
    }
    v
}

// A reader that delivers its bytes in small pieces, like a socket: read_json must loop until the whole
// announced payload has arrived (added after a seeded change that parsed whatever the first read returned).
struct Chunked<'a> {
    data: &'a [u8],
    chunk: usize,
}

impl tokio::io::AsyncRead for Chunked<'_> {
    fn poll_read(
        mut self: std::pin::Pin<&mut Self>,
        _cx: &mut std::task::Context<'_>,
        buf: &mut tokio::io::ReadBuf<'_>,
    ) -> std::task::Poll<std::io::Result<()>> {
        let n = self.chunk.min(buf.remaining()).min(self.data.len());
        let (head, tail) = self.data.split_at(n);
        buf.put_slice(head);
        self.data = tail;
        std::task::Poll::Ready(Ok(()))
    }
}

fn roundtrip<T: serde::Serialize + serde::de::DeserializeOwned>(v: &T) -> (u64, usize, bool, Result<T, u8>) {
    let r = rt();
    let mut out: Vec<u8> = Vec::new();
    r.block_on(write_json(&mut out, v)).unwrap();
    let payload = serde_json::to_vec(v).unwrap();
    let hdr = if out.len() >= 8 { u64::from_be_bytes(out[..8].try_into().unwrap()) } else { u64::MAX };
    let frame_ok = out.len() >= 8 && out[8..] == payload[..];
    let mut buf = Vec::new();
    let mut rd = Chunked { data: &out[..], chunk: 7 + out.len() % 5 };
    let back: Result<T, u8> = match r.block_on(read_json::<T>(&mut rd, &mut buf)) {
        Ok(x) if rd.data.is_empty() => Ok(x),
        Ok(_) => Err(8),
        Err(e) => Err(class(&e)),
    };
    (hdr, out.len(), frame_ok, back)
}

#[test]
fn verif_c38_driver() {
    crate::verif_hook::drive(|t| match t[0] {
        "R" => {
            let mut stream = crate::verif_hook::unhex(t[1]);
            let hlen = stream.len();
            let len: usize = t[3].parse().unwrap();
            let payload: Vec<u8> = match (t[2], len) {
                ("g", n) => vec![0xff; n],
                (_, 0) => vec![],
                (_, 1) => b"7".to_vec(),
                (_, n) => {
                    let mut p = vec![b' '; n];
                    p[0] = b'[';
                    p[n - 1] = b']';
                    p
                }
            };
            stream.extend_from_slice(&payload);
            let announced = if hlen == 8 { Some(u64::from_be_bytes(stream[..8].try_into().unwrap())) } else { None };
            let independent: Option<Result<serde_json::Value, ()>> = match announced {
                Some(n) if n <= payload.len() as u64 => Some(serde_json::from_slice(&payload[..n as usize]).map_err(|_| ())),
                _ => None,
            };
            let mut buf = vec![1u8, 2, 3];
            let mut rd = Chunked { data: &stream[..], chunk: 3 + stream.len() % 11 };
            let res = rt().block_on(read_json::<serde_json::Value>(&mut rd, &mut buf));
            let consumed = stream.len() - rd.data.len();
            let (cls, same) = match (&res, &independent) {
                (Ok(v), Some(Ok(w))) => (0, if v == w { "1" } else { "0" }),
                (Ok(_), _) => (0, "0"),
                (Err(e), Some(Err(()))) => (class(e), "0"),
                (Err(e), Some(Ok(_))) => (class(e), "1"),
                (Err(e), None) => (class(e), "-"),
            };
            format!("{} {} {} {}", cls, consumed, buf.len(), same)
        }
        "S" => {
            let text = String::from_utf8(crate::verif_hook::unhex(t[1])).unwrap();
            let mut v0: ObservableState = match serde_json::from_str(&text) {
                Ok(v) => v,
                Err(e) => return format!("generr {}", e.to_string().replace(' ', "_")),
            };
            let (hdr, total, frame_ok, back) = roundtrip(&v0);
            match back {
                Err(c) => format!("{}", c),
                Ok(mut v1) => {
                    let before: Vec<NtpDuration> = durations(&mut v0).into_iter().map(|d| *d).collect();
                    let after: Vec<NtpDuration> = durations(&mut v1).into_iter().map(|d| *d).collect();
                    if before.len() != after.len() {
                        return format!("0 {} {} {} 0", hdr, total, frame_ok as u8);
                    }
                    for (slot, b) in durations(&mut v1).into_iter().zip(before.iter()) {
                        *slot = *b;
                    }
                    let others = serde_json::to_vec(&v1).unwrap() == serde_json::to_vec(&v0).unwrap();
                    let mut s = format!("0 {} {} {} {}", hdr, total, frame_ok as u8, others as u8);
                    for (b, a) in before.iter().zip(after.iter()) {
                        s.push_str(&format!(" {} {}", raw(*b), raw(*a)));
                    }
                    s
                }
            }
        }
        "D" => {
            let v0: Vec<NtpDuration> = t[1..].iter().map(|x| dur(x.parse().unwrap())).collect();
            let (hdr, total, frame_ok, back) = roundtrip(&v0);
            match back {
                Err(c) => format!("{}", c),
                Ok(v1) => {
                    let mut s = format!("0 {} {} {}", hdr, total, frame_ok as u8);
                    for a in v1 {
                        s.push_str(&format!(" {}", raw(a)));
                    }
                    s
                }
            }
        }
        "X" => {
            let v0: Vec<f64> = t[1..].iter().map(|x| f64::from_bits(u64::from_str_radix(x, 16).unwrap())).collect();
            let (hdr, total, frame_ok, back) = roundtrip(&v0);
            match back {
                Err(c) => format!("{}", c),
                Ok(v1) => {
                    let mut s = format!("0 {} {} {}", hdr, total, frame_ok as u8);
                    for a in v1 {
                        s.push_str(&format!(" {:016x}", a.to_bits()));
                    }
                    s
                }
            }
        }
        _ => "badop".to_string(),
    });
}
