// hook file for ntpd/src/daemon/spawn/nts.rs: declares the per-property harness modules
