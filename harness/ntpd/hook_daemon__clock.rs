// hook file for ntpd/src/daemon/clock.rs: declares the per-property harness modules
