// hook file for ntpd/src/daemon/spawn/mod.rs: declares the per-property harness modules
