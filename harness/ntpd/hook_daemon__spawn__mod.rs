// hook file for ntpd/src/daemon/spawn/mod.rs: declares the per-property harness modules
#[cfg(any(verif_all, verif_c36))]
#[path = "/verif/harness/ntpd/c36.rs"]
mod c36;
