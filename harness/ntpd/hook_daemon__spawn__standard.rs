// hook file for ntpd/src/daemon/spawn/standard.rs: declares the per-property harness modules
