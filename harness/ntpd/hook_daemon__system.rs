// hook file for ntpd/src/daemon/system.rs: declares the per-property harness modules
