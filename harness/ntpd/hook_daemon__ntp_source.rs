// hook file for ntpd/src/daemon/ntp_source.rs: declares the per-property harness modules
