// hook file for ntpd/src/daemon/server.rs: declares the per-property harness modules
// --- builder P2a: C21 (ServerStats counters)
#[cfg(any(verif_all, verif_c21))]
#[path = "/verif/harness/ntpd/c21.rs"]
mod c21;
// --- lead: C16 daemon side (the real serve loop on a loopback socket)
#[cfg(any(verif_all, verif_c16))]
#[path = "/verif/harness/ntpd/c16.rs"]
mod c16;
