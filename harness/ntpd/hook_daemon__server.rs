// hook file for ntpd/src/daemon/server.rs: declares the per-property harness modules
