// C27 (ntpd part): nts_key_provider::spawn on a prepared key storage path.
// input:  <history> <none | nodir | hex file> <T|K>
//         none: the path does not exist; nodir: its directory does not exist;
//         T: bytes 0..8 of the file are replaced by the current time (so that no rotation is due), K: keep
// output: <mode of the file after the first store, octal | nofile> <id_offset> <primary> <keys,...|-> <n>:<id_offset>:<primary>
//         (the stored file after the first store, and the Debug view of the key set the daemon publishes)
use super::super::*;
use crate::verif_hook::{hex, unhex};
use std::os::unix::fs::PermissionsExt;

static COUNTER: std::sync::atomic::AtomicUsize = std::sync::atomic::AtomicUsize::new(0);

#[test]
fn verif_c27_driver() {
    let rt = tokio::runtime::Builder::new_multi_thread().worker_threads(2).enable_all().build().unwrap();
    crate::verif_hook::drive(|t| {
        let history: usize = t[0].parse().unwrap();
        let n = COUNTER.fetch_add(1, std::sync::atomic::Ordering::SeqCst);
        let dir = std::env::temp_dir().join(format!("verif_c27_{}_{}", std::process::id(), n));
        let path = dir.join("keys.bin");
        if t[1] != "nodir" {
            std::fs::create_dir_all(&dir).unwrap();
        }
        if t[1] != "none" && t[1] != "nodir" {
            let mut file = unhex(t[1]);
            if t[2] == "T" && file.len() >= 8 {
                let now = std::time::SystemTime::now().duration_since(std::time::SystemTime::UNIX_EPOCH).unwrap().as_secs();
                file[0..8].copy_from_slice(&now.to_be_bytes());
            }
            std::fs::write(&path, &file).unwrap();
            std::fs::set_permissions(&path, std::fs::Permissions::from_mode(0o640)).unwrap();
        }
        let config = KeysetConfig {
            stale_key_count: history,
            key_rotation_interval: 1_000_000,
            key_storage_path: Some(path.to_str().unwrap().to_string()),
        };
        let published = rt.block_on(async {
            let mut rx = spawn(config).await;
            // the provider stores first and publishes afterwards
            tokio::time::timeout(std::time::Duration::from_secs(60), rx.changed()).await.unwrap().unwrap();
            let ks = rx.borrow().clone();
            format!("{:?}", ks)
        });
        // "KeySet { keys: 1, id_offset: 0, primary: 0 }"
        let nums: Vec<String> = published
            .split(|c: char| !c.is_ascii_digit())
            .filter(|s| !s.is_empty())
            .map(|s| s.to_string())
            .collect();
        let summary = nums.join(":");
        let res = match std::fs::read(&path) {
            Err(_) => format!("nofile 0 0 - {}", summary),
            Ok(b) => {
                let mode = std::fs::metadata(&path).unwrap().permissions().mode() & 0o7777;
                if b.len() < 20 {
                    format!("{:o} short 0 - {}", mode, summary)
                } else {
                    let off = u32::from_be_bytes(b[8..12].try_into().unwrap());
                    let prim = u32::from_be_bytes(b[12..16].try_into().unwrap());
                    let keys: Vec<String> = b[20..].chunks(64).map(hex).collect();
                    format!("{:o} {} {} {} {}", mode, off, prim, if keys.is_empty() { "-".to_string() } else { keys.join(",") }, summary)
                }
            }
        };
        let _ = std::fs::remove_dir_all(&dir);
        res
    });
    rt.shutdown_background();
}
