// hook file for ntpd/src/daemon/keyexchange.rs: declares the per-property harness modules
