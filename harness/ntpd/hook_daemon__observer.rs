// hook file for ntpd/src/daemon/observer.rs: declares the per-property harness modules
#[cfg(any(verif_all, verif_c38))]
#[path = "/verif/harness/ntpd/c38.rs"]
mod c38;
