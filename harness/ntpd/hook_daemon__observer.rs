// hook file for ntpd/src/daemon/observer.rs: declares the per-property harness modules
