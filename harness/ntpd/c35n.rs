// C35 (NTS pool part): drive the real NtsPoolSpawner (nts_pool.rs) through a whole history on one
// line, against real NTS key exchange servers (ntp-proto's KeyExchangeServer with the
// repository's test certificate for "localhost") listening on loopback TCP ports inside this
// process.  What the server does with each accepted connection is scripted.
//
// input tokens:  <count> <srv>    then operations
//   srv = 0 (enable_srv_resolution = false): one listener, every loop iteration of try_spawn
//   connects to it
//     T <m> <behaviour>*m      try_spawn; the m behaviours are used one per accepted connection:
//          O <k> <port>        complete the key exchange; the answer names server k and NTP port
//          E                   drop the connection right after accept
//          P                   answer "no common protocol" (a server that only speaks NTPv5)
//          H                   accept and never answer (the client's NTS_TIMEOUT of 5 s expires)
//          X                   the listener is closed before this connection attempt
//        after the last behaviour the listener is closed as well
//   srv = 1 (enable_srv_resolution = true): the private queue known_resolutions is replaced before
//   every try_spawn by the m scripted resolutions, each with its own listener / port
//     T <m> <entry>*m          entry = O <s> <k> <port> | E <s> | P <s> | H <s> | X <s>
//                              s = -1: resolution without SRV record name, else the SRV name s;
//                              X: nothing listens on the port of this resolution.
//                              The last entry must be X -1 (otherwise the spawner would ask the
//                              real DNS when the queue runs empty).
//   both:
//     R <j>                    handle_source_removed for the j-th source created in this case (an
//                              id nobody has if it does not exist yet)
// server names: k = 9000: the answer has no Server record (the client falls back to the name it
//   connected to, "localhost"); 1 <= k < 5000: "127.1.(k/256).(k%256)" (resolves without DNS);
//   5000 <= k < 9000: "no such host <k>.invalid" (does not resolve); k = 9001: "127.0.0.1", another
//   name of the address "localhost" resolves to
// srv names: s in 0..512 -> "localhost" with the letters of the set bits upper-cased (the
//   certificate matches case-insensitively, the spawner compares the strings exactly); in the
//   output 20000 + s, except s = 0 which IS the string "localhost" = name 9000
// output: per T:  <connections accepted> <n> (<id> <name> <address>)*n <complete> [srv = 1: <|known_resolutions|>]
//         per R: <complete>        at the end: <|current_sources|> (<id> <name> <address>)* <same_addr>
//   address = (address identifier of the ip: 9000 for 127.0.0.1, k for 127.1.(k/256).(k%256)) * 65536 + port,
//   taken from the SpawnEvent
//   same_addr (an observation, not compared with the model): 1 when after some try_spawn two of
//   the current sources had the same socket address (under different remote names)
// ids are renumbered 0,1,2.. in the order of creation within the case.
//
// Cases are independent (own spawner, own listeners and ports) and are run on a pool of worker
// threads, each with its own current-thread runtime, so that the 5 s waits of H overlap.
// Ports are taken from a process-wide counter below the ephemeral range and never handed out
// twice in a row, so a port that was closed on purpose stays closed.
use super::super::*;
use crate::daemon::config::NtsKeAddress;
use crate::daemon::spawn::{SourceCreateParameters, SourceRemovalReason};
use ntp_proto::tls_utils::pemfile;
use ntp_proto::{KeyExchangeServer, KeySet, KeySetProvider, NtpVersion, NtsServerConfig, ProtocolVersion};
use std::collections::HashMap;
use std::net::{IpAddr, Ipv4Addr, SocketAddr};
use std::sync::Arc;
use tokio::net::{TcpListener, TcpStream};

const CHAIN: &[u8] = include_bytes!(concat!(env!("CARGO_MANIFEST_DIR"), "/test-keys/end.fullchain.pem"));
const KEY: &[u8] = include_bytes!(concat!(env!("CARGO_MANIFEST_DIR"), "/test-keys/end.key"));
const CA: &[u8] = include_bytes!(concat!(env!("CARGO_MANIFEST_DIR"), "/test-keys/testca.pem"));

#[derive(Clone, Copy, Debug)]
enum Beh {
    Ok { k: u64, port: u16 },
    Drop,
    NoProto,
    Hang,
    Closed,
}

// listeners get ports from a private range: [20000, 32000), the start depends on the process id
static NEXT_PORT: std::sync::atomic::AtomicU32 = std::sync::atomic::AtomicU32::new(0);
fn next_port() -> u16 {
    let n = NEXT_PORT.fetch_add(1, std::sync::atomic::Ordering::SeqCst);
    (20000 + (n + (std::process::id() % 12) * 1000) % 12000) as u16
}
fn new_listener(rt: &tokio::runtime::Runtime) -> (TcpListener, u16) {
    for _ in 0..12000 {
        let port = next_port();
        if let Ok(l) = rt.block_on(TcpListener::bind(("127.0.0.1", port))) {
            return (l, port);
        }
    }
    panic!("no free port");
}
// a port nothing listens on
fn closed_port(rt: &tokio::runtime::Runtime) -> u16 {
    let (l, port) = new_listener(rt);
    drop(l);
    port
}

// the address identifier (see id_of_ip) of the server named k: "localhost" and "127.0.0.1" are the same address
fn addr_id(k: u64) -> i64 {
    if k == 9001 { 9000 } else { k as i64 }
}

// one number for a socket address: address identifier and port
fn addr_code(a: SocketAddr) -> i64 {
    id_of_ip(a.ip()) * 65536 + a.port() as i64
}

fn srv_key(s: u64) -> i64 {
    if s == 0 { 9000 } else { 20000 + s as i64 }
}

fn server_name(k: u64) -> Option<String> {
    if k == 9000 {
        None
    } else if k == 9001 {
        Some("127.0.0.1".to_string())
    } else if k < 5000 {
        Some(format!("127.1.{}.{}", k / 256, k % 256))
    } else {
        Some(format!("no such host {k}.invalid"))
    }
}

fn srv_name(s: u64) -> String {
    "localhost"
        .chars()
        .enumerate()
        .map(|(i, c)| if (s >> i) & 1 == 1 { c.to_ascii_uppercase() } else { c })
        .collect()
}

// the name identifier of a remote name kept by the spawner
fn id_of_remote(r: &str) -> i64 {
    if r == "localhost" {
        return 9000;
    }
    if r.eq_ignore_ascii_case("localhost") {
        let mut s = 0;
        for (i, c) in r.chars().enumerate() {
            if c.is_ascii_uppercase() {
                s |= 1 << i;
            }
        }
        return 20000 + s;
    }
    if let Ok(ip) = r.parse::<Ipv4Addr>() {
        let o = ip.octets();
        if o == [127, 0, 0, 1] {
            return 9001;
        }
        if o[0] == 127 && o[1] == 1 {
            return (o[2] as i64) * 256 + o[3] as i64;
        }
    }
    if let Some(x) = r.strip_prefix("no such host ").and_then(|x| x.strip_suffix(".invalid")) {
        return x.parse().unwrap_or(-1);
    }
    -1
}

// the server name identifier of the address a source is created for
fn id_of_ip(ip: IpAddr) -> i64 {
    match ip {
        IpAddr::V4(v) => {
            let o = v.octets();
            if o == [127, 0, 0, 1] {
                9000
            } else if o[0] == 127 && o[1] == 1 {
                (o[2] as i64) * 256 + o[3] as i64
            } else {
                -1
            }
        }
        IpAddr::V6(v) => {
            if v.is_loopback() {
                9000
            } else {
                -1
            }
        }
    }
}

struct Servers {
    keyset: Arc<KeySet>,
    by_answer: HashMap<(u64, u16), KeyExchangeServer>,
    v5_only: KeyExchangeServer,
}

fn make_server(name: Option<String>, port: u16, versions: Vec<NtpVersion>) -> KeyExchangeServer {
    let certificate_chain = pemfile::certs(&mut &CHAIN[..]).collect::<std::io::Result<Vec<_>>>().unwrap();
    let private_key = pemfile::private_key(&mut &KEY[..]).unwrap();
    KeyExchangeServer::new(NtsServerConfig {
        certificate_chain,
        private_key,
        accepted_versions: versions,
        server: name,
        port: Some(port),
        pool_authentication_tokens: vec![],
    })
    .unwrap()
}

impl Servers {
    fn new() -> Servers {
        Servers {
            keyset: KeySetProvider::new(1).get(),
            by_answer: HashMap::new(),
            v5_only: make_server(None, 123, vec![NtpVersion::V5]),
        }
    }

    // what the server does with one accepted connection
    async fn behave(&mut self, b: Beh, stream: TcpStream, held: &mut Vec<TcpStream>) {
        match b {
            Beh::Ok { k, port } => {
                let server =
                    self.by_answer.entry((k, port)).or_insert_with(|| make_server(server_name(k), port, vec![NtpVersion::V4]));
                let _ = server.handle_connection(stream, &self.keyset, || None::<()>).await;
            }
            Beh::NoProto => {
                let _ = self.v5_only.handle_connection(stream, &self.keyset, || None::<()>).await;
            }
            Beh::Drop => drop(stream),
            Beh::Hang => held.push(stream),
            Beh::Closed => unreachable!(),
        }
    }
}

// (name the source would be filed under, server named by the answer, NTP port) of the completed exchanges
type Served = std::cell::RefCell<Vec<(i64, i64, u16)>>;

// srv = 0: the scripted key exchange server of one try_spawn, one listener
async fn serve(
    listener: &mut Option<TcpListener>,
    script: &[Beh],
    servers: &mut Servers,
    conns: &std::cell::Cell<usize>,
    served: &Served,
) {
    let mut held = Vec::new();
    for (j, b) in script.iter().enumerate() {
        if matches!(b, Beh::Closed) {
            break;
        }
        let (stream, _) = listener.as_ref().expect("listener open").accept().await.unwrap();
        conns.set(conns.get() + 1);
        // closed before the client can try its next connection: it cannot finish this one earlier
        if script.get(j + 1).map_or(true, |n| matches!(n, Beh::Closed)) {
            *listener = None;
        }
        if let Beh::Ok { k, port } = *b {
            served.borrow_mut().push((k as i64, addr_id(k), port));
        }
        servers.behave(*b, stream, &mut held).await;
    }
    std::future::pending::<()>().await;
}

// srv = 1: one listener per scripted resolution, each used for at most one connection
async fn serve_srv(
    mut listeners: Vec<(TcpListener, Option<u64>, Beh)>,
    servers: &mut Servers,
    conns: &std::cell::Cell<usize>,
    served: &Served,
) {
    let mut held = Vec::new();
    while !listeners.is_empty() {
        let (j, stream) = std::future::poll_fn(|cx| {
            for (j, (l, _, _)) in listeners.iter().enumerate() {
                if let std::task::Poll::Ready(r) = l.poll_accept(cx) {
                    return std::task::Poll::Ready((j, r.unwrap().0));
                }
            }
            std::task::Poll::Pending
        })
        .await;
        let (_, srv, b) = listeners.remove(j);
        conns.set(conns.get() + 1);
        if let Beh::Ok { k, port } = b {
            served.borrow_mut().push((srv.map(srv_key).unwrap_or(k as i64), addr_id(k), port));
        }
        servers.behave(b, stream, &mut held).await;
    }
    std::future::pending::<()>().await;
}

fn idx(ids: &[ClockId], id: ClockId) -> i64 {
    ids.iter().position(|x| *x == id).map(|p| p as i64).unwrap_or(-1)
}

fn run_case(t: &[&str], rt: &tokio::runtime::Runtime, servers: &mut Servers) -> String {
    let p = std::cell::Cell::new(0usize);
    let next = || {
        let s = t[p.get()];
        p.set(p.get() + 1);
        s
    };
    let count: usize = next().parse().unwrap();
    let srv_mode = next() == "1";
    let mk_addr = |port: u16| NtsKeAddress(NormalizedAddress::new_from_parts("localhost", port));
    let mut listener: Option<TcpListener> = None;
    let mut pool = NtsPoolSpawner::new(
        NtsPoolSourceConfig {
            // srv = 1: the name is used for TLS when a resolution has no SRV record name; nothing
            // listens on port 1, should the spawner resolve the name after all
            addr: mk_addr(1),
            enable_srv_resolution: srv_mode,
            certificate_authorities: pemfile::certs(&mut &CA[..]).collect::<std::io::Result<Vec<_>>>().unwrap().into(),
            count,
            ntp_version: ProtocolVersion::V4,
        },
        SourceConfig::default(),
    )
    .unwrap();
    let spawner_id = pool.get_id();
    let (action_tx, mut action_rx) = mpsc::channel::<SpawnEvent>(count + 64);
    let mut ids: Vec<ClockId> = Vec::new();
    let mut addrs: Vec<SocketAddr> = Vec::new(); // of the sources, in order of creation
    let mut same_addr = 0; // observation: two sources of current_sources have the same socket address
    let mut out: Vec<String> = Vec::new();
    while p.get() < t.len() {
        match next() {
            "T" => {
                let m: usize = next().parse().unwrap();
                let mut script: Vec<(Option<u64>, Beh)> = Vec::new();
                for _ in 0..m {
                    let letter = next();
                    let srv = if srv_mode {
                        let s: i64 = next().parse().unwrap();
                        if s < 0 { None } else { Some(s as u64) }
                    } else {
                        None
                    };
                    script.push((
                        srv,
                        match letter {
                            "O" => Beh::Ok { k: next().parse().unwrap(), port: next().parse().unwrap() },
                            "E" => Beh::Drop,
                            "P" => Beh::NoProto,
                            "H" => Beh::Hang,
                            "X" => Beh::Closed,
                            x => panic!("bad behaviour {x}"),
                        },
                    ));
                }
                let conns = std::cell::Cell::new(0usize);
                let served: Served = std::cell::RefCell::new(Vec::new());
                if srv_mode {
                    assert!(matches!(script.last(), Some((None, Beh::Closed))), "the script must end with X -1");
                    let mut listeners = Vec::new();
                    pool.known_resolutions.clear();
                    for (srv, b) in &script {
                        let port = if matches!(b, Beh::Closed) {
                            closed_port(rt)
                        } else {
                            let (l, port) = new_listener(rt);
                            listeners.push((l, *srv, *b));
                            port
                        };
                        pool.known_resolutions.push_back(KeResolutionResult {
                            addr: SocketAddr::new(IpAddr::V4(Ipv4Addr::LOCALHOST), port),
                            srv_record_name: srv.map(srv_name),
                        });
                    }
                    rt.block_on(async {
                        let srv = serve_srv(listeners, servers, &conns, &served);
                        tokio::pin!(srv);
                        tokio::select! {
                            biased;
                            r = pool.try_spawn(&action_tx) => r.unwrap(),
                            _ = &mut srv => unreachable!(),
                        }
                    });
                } else {
                    let script: Vec<Beh> = script.iter().map(|x| x.1).collect();
                    let open = !matches!(script.first(), None | Some(Beh::Closed));
                    if !open {
                        listener = None;
                    } else if listener.is_none() {
                        let (l, port) = new_listener(rt);
                        pool.config.addr = mk_addr(port);
                        listener = Some(l);
                    }
                    rt.block_on(async {
                        let srv = serve(&mut listener, &script, servers, &conns, &served);
                        tokio::pin!(srv);
                        tokio::select! {
                            biased;
                            r = pool.try_spawn(&action_tx) => r.unwrap(),
                            _ = &mut srv => unreachable!(),
                        }
                    });
                }
                let served = served.into_inner();
                let mut sp = 0usize;
                let mut evs: Vec<String> = Vec::new();
                let mut n = 0;
                while let Ok(ev) = action_rx.try_recv() {
                    assert!(ev.id == spawner_id, "event carries another spawner id");
                    let SpawnAction::Create(SourceCreateParameters::Ntp(params)) = ev.action else {
                        panic!("not an ntp create action");
                    };
                    assert!(params.nts.is_some(), "source without NTS data");
                    assert!(params.protocol_version == ProtocolVersion::V4, "protocol version");
                    assert!(params.normalized_addr == *pool.config.addr, "normalized address is not the pool's");
                    // the spawner's own record of this source gives the name it was filed under
                    let name = pool
                        .current_sources
                        .iter()
                        .find(|s| s.id == params.id)
                        .map(|s| id_of_remote(&s.remote))
                        .expect("created source is not in current_sources");
                    // each event belongs to a completed exchange of this round, in order, and goes to
                    // the server and port that exchange named
                    let a = id_of_ip(params.addr.ip());
                    loop {
                        assert!(sp < served.len(), "event without a completed key exchange");
                        let (skey, sk, sport) = served[sp];
                        sp += 1;
                        if skey == name && sk == a && sport == params.addr.port() {
                            break;
                        }
                    }
                    ids.push(params.id);
                    addrs.push(params.addr);
                    n += 1;
                    evs.push(format!("{} {} {}", ids.len() - 1, name, addr_code(params.addr)));
                }
                out.push(format!("{}", conns.get()));
                out.push(format!("{}", n));
                out.extend(evs);
                out.push(format!("{}", pool.is_complete() as u8));
                if srv_mode {
                    out.push(format!("{}", pool.known_resolutions.len()));
                }
                let cur: Vec<SocketAddr> =
                    pool.current_sources.iter().filter_map(|s| ids.iter().position(|x| *x == s.id)).map(|i| addrs[i]).collect();
                if (0..cur.len()).any(|i| cur[..i].contains(&cur[i])) {
                    same_addr = 1;
                }
            }
            "R" => {
                let k: usize = next().parse().unwrap();
                let id = if k < ids.len() { ids[k] } else { ClockId::new() };
                let reason = match k % 3 {
                    0 => SourceRemovalReason::Demobilized,
                    1 => SourceRemovalReason::NetworkIssue,
                    _ => SourceRemovalReason::Unreachable,
                };
                rt.block_on(pool.handle_source_removed(SourceRemovedEvent { id, reason })).unwrap();
                out.push(format!("{}", pool.is_complete() as u8));
            }
            x => panic!("bad op {x}"),
        }
    }
    out.push(format!("{}", pool.current_sources.len()));
    for s in &pool.current_sources {
        let i = idx(&ids, s.id);
        // the address the source was created for (the spawner's own copy of it exists on repaired trees only)
        let a = if i >= 0 { addr_code(addrs[i as usize]) } else { -1 };
        out.push(format!("{} {} {}", i, id_of_remote(&s.remote), a));
    }
    out.push(format!("{}", same_addr));
    out.join(" ")
}

#[test]
fn verif_c35n_driver() {
    use std::sync::atomic::{AtomicUsize, Ordering};
    std::panic::set_hook(Box::new(|_| {}));
    let fin = std::env::var("VERIF_IN").expect("VERIF_IN not set");
    let lines: Vec<String> = std::fs::read_to_string(fin).unwrap().lines().map(|l| l.to_string()).collect();
    let nthreads: usize = std::env::var("VERIF_C35N_THREADS").ok().and_then(|x| x.parse().ok()).unwrap_or(24);
    let results: std::sync::Mutex<HashMap<String, String>> = std::sync::Mutex::new(HashMap::new());
    let next = AtomicUsize::new(0);
    std::thread::scope(|s| {
        for _ in 0..nthreads.max(1) {
            s.spawn(|| {
                let rt = tokio::runtime::Builder::new_current_thread().enable_all().build().unwrap();
                let mut servers = Servers::new();
                loop {
                    let i = next.fetch_add(1, Ordering::SeqCst);
                    if i >= lines.len() {
                        break;
                    }
                    let toks: Vec<&str> = lines[i].split_whitespace().skip(1).collect();
                    if toks.is_empty() {
                        continue;
                    }
                    let r = std::panic::catch_unwind(std::panic::AssertUnwindSafe(|| run_case(&toks, &rt, &mut servers)));
                    let s = match r {
                        Ok(s) => s,
                        Err(e) => {
                            let msg = if let Some(s) = e.downcast_ref::<&str>() {
                                s.to_string()
                            } else if let Some(s) = e.downcast_ref::<String>() {
                                s.clone()
                            } else {
                                "?".to_string()
                            };
                            format!("PANIC {msg}")
                        }
                    };
                    results.lock().unwrap().insert(toks.join(" "), s);
                }
            });
        }
    });
    let results = results.into_inner().unwrap();
    crate::verif_hook::drive(|t| {
        let s = results.get(&t.join(" ")).cloned().expect("case was not run");
        if let Some(m) = s.strip_prefix("PANIC ") {
            panic!("{}", m);
        }
        s
    });
}
