// hook file for ntpd/src/daemon/spawn/nts_pool.rs: declares the per-property harness modules
