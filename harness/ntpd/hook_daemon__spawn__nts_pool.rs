// hook file for ntpd/src/daemon/spawn/nts_pool.rs: declares the per-property harness modules
#[cfg(any(verif_all, verif_c35, verif_c35n))]
#[path = "/verif/harness/ntpd/c35n.rs"]
mod c35n;
