// C39: whole configuration documents through the daemon's loader.
// input:  C <hex of the TOML text>    -> toml::from_str::<Config>(text), then Config::check()
//         J <hex of a JSON text>      -> serde_json::from_str::<StepThreshold>(text)
// output: C: "0 <single.fw> <single.bw> <startup.fw> <startup.bw> <accumulated> <check 0|1>"
//         J: "0 <fw> <bw>"                 opt = "0" | "1 <raw i64>"
//         errors: "1" invalid value, "2" invalid type, "3" duplicate field, "4" unknown field,
//                 "9" anything else (syntax errors of the text parser, other fields)
use super::super::*;
use ntp_proto::{NtpDuration, NtpTimestamp, StepThreshold};

fn raw(d: NtpDuration) -> i64 {
    let zero: NtpTimestamp = serde_json::from_str("{\"timestamp\":0}").unwrap();
    let s = format!("{:?}", zero + d);
    let u: u64 = s.trim_start_matches("NtpTimestamp(").trim_end_matches(')').parse().unwrap();
    u as i64
}

fn opt(o: Option<NtpDuration>) -> String {
    match o {
        None => "0".to_string(),
        Some(d) => format!("1 {}", raw(d)),
    }
}

fn class(m: &str) -> &'static str {
    if m.contains("invalid value") {
        "1"
    } else if m.contains("invalid type") {
        "2"
    } else if m.contains("duplicate field") {
        "3"
    } else if m.contains("unknown field") {
        "4"
    } else {
        "9"
    }
}

#[test]
fn verif_c39_driver() {
    crate::verif_hook::drive(|t| {
        let bytes = crate::verif_hook::unhex(t[1]);
        let text = String::from_utf8_lossy(&bytes).to_string();
        match t[0] {
            "C" => match toml::from_str::<Config>(&text) {
                Ok(cfg) => {
                    let ok = cfg.check();
                    let s = &cfg.synchronization.synchronization_base;
                    format!(
                        "0 {} {} {} {} {} {}",
                        opt(s.single_step_panic_threshold.forward),
                        opt(s.single_step_panic_threshold.backward),
                        opt(s.startup_step_panic_threshold.forward),
                        opt(s.startup_step_panic_threshold.backward),
                        opt(s.accumulated_step_panic_threshold),
                        ok as u8
                    )
                }
                Err(e) => class(e.message()).to_string(),
            },
            "J" => match serde_json::from_str::<StepThreshold>(&text) {
                Ok(st) => format!("0 {} {}", opt(st.forward), opt(st.backward)),
                Err(e) => class(&e.to_string()).to_string(),
            },
            _ => "badop".to_string(),
        }
    });
}
