// hook file for ntpd/src/daemon/mod.rs: declares the per-property harness modules
