// C36: run the real spawner_task (spawn/mod.rs) under tokio's paused clock with a recording
// wrapper around (M) a scripted mock spawner or (S) the real StandardSpawner with the
// repository's hard-coded test resolver.  All times are whole milliseconds of virtual time
// since the start of the case.
//
// input tokens:  M <n> (<duration_ms> <outcome>)*n <m> (<arrival_ms> <event>)*m <close_ms>
//                S <n> (<addr>)*n                  <m> (<arrival_ms> <event>)*m <close_ms>
//   outcome: 0 Ok/incomplete, 1 Ok/complete, 2 Err          addr k = 127.0.0.k:123
//   event:   0 SourceRegistered, 1/2/3 SourceRemoved Demobilized/NetworkIssue/Unreachable, 4 Idle
// output (the log):  1 <t> <f> <k> <info>*k   try_spawn called at t, returned at f (k = -1: Err;
//                                             mock: info = is_complete after the call; standard:
//                                             the addresses of the SpawnEvents it sent)
//                    2 <t> <event>            handler called at t
//                    4 <t>                    the task returned Ok(()) at t
//                    HANG                     the task did not end
use super::super::*;
use crate::daemon::config::StandardSource;
use crate::daemon::spawn::standard::StandardSpawner;
use std::sync::{Arc, Mutex};
use std::time::Duration;

#[derive(Debug)]
struct MockErr;
impl std::fmt::Display for MockErr {
    fn fmt(&self, f: &mut std::fmt::Formatter<'_>) -> std::fmt::Result {
        write!(f, "scripted error")
    }
}
impl std::error::Error for MockErr {}

struct Mock {
    complete: bool,
    script: std::collections::VecDeque<(u64, u8)>,
    id: SpawnerId,
}

impl Spawner for Mock {
    type Error = MockErr;

    async fn try_spawn(&mut self, _action_tx: &mpsc::Sender<SpawnEvent>) -> Result<(), MockErr> {
        match self.script.pop_front() {
            None => {
                self.complete = true;
                Ok(())
            }
            Some((d, o)) => {
                if d > 0 {
                    tokio::time::sleep(Duration::from_millis(d)).await;
                }
                match o {
                    2 => Err(MockErr),
                    1 => {
                        self.complete = true;
                        Ok(())
                    }
                    _ => {
                        self.complete = false;
                        Ok(())
                    }
                }
            }
        }
    }

    fn is_complete(&self) -> bool {
        self.complete
    }

    async fn handle_source_removed(&mut self, ev: SourceRemovedEvent) -> Result<(), MockErr> {
        if ev.reason != SourceRemovalReason::Demobilized {
            self.complete = false;
        }
        Ok(())
    }

    fn get_id(&self) -> SpawnerId {
        self.id
    }
    fn get_addr_description(&self) -> String {
        "mock".into()
    }
    fn get_description(&self) -> &'static str {
        "mock"
    }
}

// transparent recording wrapper: delegates every call, notes when it happened
struct Rec<S> {
    inner: S,
    mock_mode: bool,
    t0: Instant,
    log: Arc<Mutex<Vec<i64>>>,
}

impl<S> Rec<S> {
    fn ms(&self) -> i64 {
        (Instant::now() - self.t0).as_millis() as i64
    }
}

impl<S: Spawner + Send> Spawner for Rec<S> {
    type Error = S::Error;

    async fn try_spawn(&mut self, _action_tx: &mpsc::Sender<SpawnEvent>) -> Result<(), S::Error> {
        let t = self.ms();
        let (tx, mut rx) = mpsc::channel::<SpawnEvent>(64);
        let r = self.inner.try_spawn(&tx).await;
        let f = self.ms();
        let mut info: Vec<i64> = Vec::new();
        while let Ok(ev) = rx.try_recv() {
            let SpawnAction::Create(SourceCreateParameters::Ntp(p)) = ev.action else {
                panic!("unexpected spawn action");
            };
            let code = match p.addr.ip() {
                std::net::IpAddr::V4(v) => v.octets()[3] as i64,
                _ => -7,
            };
            info.push(code);
        }
        if self.mock_mode {
            info = vec![self.inner.is_complete() as i64];
        }
        let mut log = self.log.lock().unwrap();
        log.extend([1, t, f]);
        if r.is_err() {
            log.push(-1);
        } else {
            log.push(info.len() as i64);
            log.extend(info);
        }
        drop(log);
        r
    }

    fn is_complete(&self) -> bool {
        self.inner.is_complete()
    }

    async fn handle_source_removed(&mut self, ev: SourceRemovedEvent) -> Result<(), S::Error> {
        let code = match ev.reason {
            SourceRemovalReason::Demobilized => 1,
            SourceRemovalReason::NetworkIssue => 2,
            SourceRemovalReason::Unreachable => 3,
        };
        let t = self.ms();
        self.log.lock().unwrap().extend([2, t, code]);
        self.inner.handle_source_removed(ev).await
    }

    async fn handle_registered(&mut self, ev: SourceCreateParameters) -> Result<(), S::Error> {
        let t = self.ms();
        self.log.lock().unwrap().extend([2, t, 0]);
        self.inner.handle_registered(ev).await
    }

    fn get_id(&self) -> SpawnerId {
        self.inner.get_id()
    }
    fn get_addr_description(&self) -> String {
        self.inner.get_addr_description()
    }
    fn get_description(&self) -> &'static str {
        self.inner.get_description()
    }
}

fn event_of(code: u8) -> SystemEvent {
    match code {
        0 => SystemEvent::SourceRegistered(SourceCreateParameters::Sock(SockSourceCreateParameters {
            id: ClockId::new(),
            path: PathBuf::from("/verif"),
            config: SourceConfig::default(),
            precision: 0.0,
            accuracy: 0.0,
        })),
        1 => SystemEvent::source_removed(ClockId::new(), SourceRemovalReason::Demobilized),
        2 => SystemEvent::source_removed(ClockId::new(), SourceRemovalReason::NetworkIssue),
        3 => SystemEvent::source_removed(ClockId::new(), SourceRemovalReason::Unreachable),
        _ => SystemEvent::Idle,
    }
}

async fn run_task<S: Spawner + Send + 'static>(
    inner: S,
    mock_mode: bool,
    evs: Vec<(u64, u8)>,
    tc: u64,
) -> String
where
    S::Error: 'static,
{
    let t0 = Instant::now();
    let log = Arc::new(Mutex::new(Vec::new()));
    let rec = Rec { inner, mock_mode, t0, log: log.clone() };
    let (action_tx, _action_rx) = mpsc::channel::<SpawnEvent>(8);
    let (notify_tx, notify_rx) = mpsc::channel::<SystemEvent>(evs.len() + 2);
    let task = tokio::spawn(spawner_task(rec, action_tx, notify_rx));
    let sender = tokio::spawn(async move {
        for (t, code) in evs {
            tokio::time::sleep_until(t0 + Duration::from_millis(t)).await;
            notify_tx.send(event_of(code)).await.unwrap();
        }
        tokio::time::sleep_until(t0 + Duration::from_millis(tc)).await;
        drop(notify_tx);
    });
    let res = timeout(Duration::from_secs(10_000_000), task).await;
    let end = (Instant::now() - t0).as_millis() as i64;
    sender.abort();
    let mut v = log.lock().unwrap().clone();
    let mut hang = false;
    match res {
        Err(_) => hang = true,
        Ok(Err(e)) => panic!("spawner task panicked: {e}"),
        Ok(Ok(Ok(()))) => v.extend([4, end]),
        Ok(Ok(Err(_))) => {}
    }
    let mut s: Vec<String> = v.iter().map(|x| x.to_string()).collect();
    if hang {
        s.push("HANG".into());
    }
    s.join(" ")
}

fn run_case(t: &[&str]) -> String {
    let p = std::cell::Cell::new(1usize);
    let next = || {
        let s = t[p.get()];
        p.set(p.get() + 1);
        s
    };
    let kind = t[0];
    let n: usize = next().parse().unwrap();
    let mut script: Vec<(u64, u8)> = Vec::new();
    let mut addrs: Vec<SocketAddr> = Vec::new();
    for _ in 0..n {
        if kind == "M" {
            let d: u64 = next().parse().unwrap();
            let o: u8 = next().parse().unwrap();
            script.push((d, o));
        } else {
            let k: u8 = next().parse().unwrap();
            addrs.push(SocketAddr::from(([127, 0, 0, k], 123)));
        }
    }
    let m: usize = next().parse().unwrap();
    let mut evs: Vec<(u64, u8)> = Vec::new();
    for _ in 0..m {
        let a: u64 = next().parse().unwrap();
        let c: u8 = next().parse().unwrap();
        evs.push((a, c));
    }
    let tc: u64 = next().parse().unwrap();
    // a fresh runtime per case: the paused clock starts at the timer driver's origin
    let rt = tokio::runtime::Builder::new_current_thread()
        .enable_all()
        .start_paused(true)
        .build()
        .unwrap();
    if kind == "M" {
        let mock = Mock { complete: false, script: script.into(), id: SpawnerId::new() };
        rt.block_on(run_task(mock, true, evs, tc))
    } else {
        let sp = StandardSpawner::new(
            StandardSource {
                address: NormalizedAddress::with_hardcoded_dns("std.verif.test", 123, addrs).into(),
                ntp_version: ProtocolVersion::V4,
            },
            SourceConfig::default(),
        );
        rt.block_on(run_task(sp, false, evs, tc))
    }
}

#[test]
fn verif_c36_driver() {
    crate::verif_hook::drive(|t| run_case(t));
}
