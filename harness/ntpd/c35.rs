// C35: drive the real PoolSpawner (pool.rs) through a whole history on one line.
//
// input tokens:  <count> <n_ignore> <ip>*  then operations
//     T E                      try_spawn, the name does not resolve (lookup_host -> Err)
//     T <n> (<ip> <port>)*n    try_spawn, lookup_host would answer exactly this list
//     R <k> <reason>           handle_source_removed for the k-th source created in this case
//                              (an id nobody has if k was not created yet); reason 0/1/2 =
//                              Demobilized / NetworkIssue / Unreachable
// ip identifiers: k < 1000 -> 10.1.(k/256).(k%256), k >= 1000 -> fd00::k
// output: per T:  <n> (<id> <ip> <port>)*n <complete>    per R: <complete>
//         at the end: <|current|> (<id> <ip> <port>)* <|known_ips|> (<ip> <port>)* (Vec order)
// ids are renumbered 0,1,2.. in the order of creation within the case.
use super::super::*;
use crate::daemon::config::NormalizedAddress;
use crate::daemon::spawn::SourceRemovalReason;
use ntp_proto::ProtocolVersion;
use std::net::{IpAddr, Ipv4Addr, Ipv6Addr};

fn ip_of(k: u64) -> IpAddr {
    if k < 1000 {
        IpAddr::V4(Ipv4Addr::new(10, 1, (k / 256) as u8, (k % 256) as u8))
    } else {
        IpAddr::V6(Ipv6Addr::new(0xfd00, 0, 0, 0, 0, 0, (k >> 16) as u16, (k & 0xffff) as u16))
    }
}

fn id_of_ip(ip: IpAddr) -> u64 {
    match ip {
        IpAddr::V4(v) => {
            let o = v.octets();
            (o[2] as u64) * 256 + o[3] as u64
        }
        IpAddr::V6(v) => {
            let s = v.segments();
            ((s[6] as u64) << 16) | s[7] as u64
        }
    }
}

fn idx(ids: &[ClockId], id: ClockId) -> i64 {
    ids.iter().position(|x| *x == id).map(|p| p as i64).unwrap_or(-1)
}

fn run_case(t: &[&str], rt: &tokio::runtime::Runtime) -> String {
    let p = std::cell::Cell::new(0usize);
    let next = || {
        let s = t[p.get()];
        p.set(p.get() + 1);
        s
    };
    let count: usize = next().parse().unwrap();
    let nign: usize = next().parse().unwrap();
    let mut ignore = Vec::new();
    for _ in 0..nign {
        ignore.push(ip_of(next().parse().unwrap()));
    }
    let mut pool = PoolSpawner::new(
        PoolSourceConfig {
            addr: NormalizedAddress::with_hardcoded_dns("pool.verif.test", 123, vec![]).into(),
            count,
            ignore,
            ntp_version: ProtocolVersion::V4,
        },
        SourceConfig::default(),
    );
    let spawner_id = pool.get_id();
    let (action_tx, mut action_rx) = mpsc::channel::<SpawnEvent>(count + 64);
    let mut ids: Vec<ClockId> = Vec::new();
    let mut out: Vec<String> = Vec::new();
    while p.get() < t.len() {
        match next() {
            "T" => {
                let a = next();
                if a == "E" {
                    // no hard-coded answer: the real resolver is asked for a name that cannot exist
                    pool.config.addr = NormalizedAddress::new_from_parts("no such host.invalid", 123).into();
                } else {
                    let n: usize = a.parse().unwrap();
                    let mut l: Vec<SocketAddr> = Vec::new();
                    for _ in 0..n {
                        let ip = ip_of(next().parse().unwrap());
                        let port: u16 = next().parse().unwrap();
                        l.push(SocketAddr::new(ip, port));
                    }
                    // the test resolver rotates its list by one (last to front) before answering
                    if !l.is_empty() {
                        let first = l.remove(0);
                        l.push(first);
                    }
                    pool.config.addr = NormalizedAddress::with_hardcoded_dns("pool.verif.test", 123, l).into();
                }
                rt.block_on(pool.try_spawn(&action_tx)).unwrap();
                let mut evs: Vec<String> = Vec::new();
                let mut n = 0;
                while let Ok(ev) = action_rx.try_recv() {
                    assert!(ev.id == spawner_id, "event carries another spawner id");
                    let SpawnAction::Create(crate::daemon::spawn::SourceCreateParameters::Ntp(params)) = ev.action else {
                        panic!("not an ntp create action");
                    };
                    ids.push(params.id);
                    n += 1;
                    evs.push(format!("{} {} {}", ids.len() - 1, id_of_ip(params.addr.ip()), params.addr.port()));
                }
                out.push(format!("{}", n));
                out.extend(evs);
                out.push(format!("{}", pool.is_complete() as u8));
            }
            "R" => {
                let k: usize = next().parse().unwrap();
                let reason = match next() {
                    "0" => SourceRemovalReason::Demobilized,
                    "1" => SourceRemovalReason::NetworkIssue,
                    _ => SourceRemovalReason::Unreachable,
                };
                let id = if k < ids.len() { ids[k] } else { ClockId::new() };
                rt.block_on(pool.handle_source_removed(SourceRemovedEvent { id, reason })).unwrap();
                out.push(format!("{}", pool.is_complete() as u8));
            }
            x => panic!("bad op {x}"),
        }
    }
    out.push(format!("{}", pool.current_sources.len()));
    for s in &pool.current_sources {
        out.push(format!("{} {} {}", idx(&ids, s.id), id_of_ip(s.addr.ip()), s.addr.port()));
    }
    out.push(format!("{}", pool.known_ips.len()));
    for a in &pool.known_ips {
        out.push(format!("{} {}", id_of_ip(a.ip()), a.port()));
    }
    out.join(" ")
}

#[test]
fn verif_c35_driver() {
    let rt = tokio::runtime::Builder::new_current_thread().enable_all().build().unwrap();
    crate::verif_hook::drive(|t| run_case(t, &rt));
}
