// hook file for ntpd/src/daemon/sock_source.rs: declares the per-property harness modules
