// hook file for ntpd/src/daemon/sock_source.rs: declares the per-property harness modules
#[cfg(any(verif_all, verif_c40))]
#[path = "/verif/harness/ntpd/c40.rs"]
mod c40;
