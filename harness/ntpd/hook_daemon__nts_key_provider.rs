// hook file for ntpd/src/daemon/nts_key_provider.rs: declares the per-property harness modules
#[cfg(any(verif_all, verif_c27))]
#[path = "/verif/harness/ntpd/c27.rs"]
mod c27;
