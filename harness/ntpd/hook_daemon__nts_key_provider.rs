// hook file for ntpd/src/daemon/nts_key_provider.rs: declares the per-property harness modules
