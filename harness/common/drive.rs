// Shared driver of the /verif harness modules (included into every crate's
// root hook module with include!).  Reads $VERIF_IN (one case per line:
// "<id> <token> <token> ..."), runs the case under catch_unwind and writes
// "<id> <result tokens>" or "<id> PANIC <message>" to $VERIF_OUT.
#[allow(dead_code)]
pub(crate) fn drive<F: FnMut(&[&str]) -> std::string::String>(mut f: F) {
    use std::io::{BufRead, Write};
    use std::string::{String, ToString};
    use std::vec::Vec;
    let fin = std::env::var("VERIF_IN").expect("VERIF_IN not set");
    let fout = std::env::var("VERIF_OUT").expect("VERIF_OUT not set");
    std::panic::set_hook(std::boxed::Box::new(|_| {}));
    let mut out = std::io::BufWriter::new(std::fs::File::create(fout).expect("create VERIF_OUT"));
    let rd = std::io::BufReader::new(std::fs::File::open(fin).expect("open VERIF_IN"));
    for line in rd.lines() {
        let line = line.expect("read line");
        let toks: Vec<&str> = line.split_whitespace().collect();
        if toks.is_empty() {
            continue;
        }
        let r = std::panic::catch_unwind(std::panic::AssertUnwindSafe(|| f(&toks[1..])));
        match r {
            Ok(s) => writeln!(out, "{} {}", toks[0], s).unwrap(),
            Err(e) => {
                let msg: String = if let Some(s) = e.downcast_ref::<&str>() {
                    s.to_string()
                } else if let Some(s) = e.downcast_ref::<String>() {
                    s.clone()
                } else {
                    "?".to_string()
                };
                let msg: String = msg.chars().map(|c| if c.is_whitespace() { '_' } else { c }).take(120).collect();
                writeln!(out, "{} PANIC {}", toks[0], msg).unwrap()
            }
        }
    }
    out.flush().unwrap();
}

#[allow(dead_code)]
pub(crate) fn hex(b: &[u8]) -> std::string::String {
    use std::fmt::Write;
    let mut s = std::string::String::new();
    if b.is_empty() {
        s.push('-');
    }
    for x in b {
        write!(s, "{:02x}", x).unwrap();
    }
    s
}

#[allow(dead_code)]
pub(crate) fn unhex(s: &str) -> std::vec::Vec<u8> {
    if s == "-" {
        return std::vec::Vec::new();
    }
    (0..s.len() / 2).map(|i| u8::from_str_radix(&s[2 * i..2 * i + 2], 16).unwrap()).collect()
}
