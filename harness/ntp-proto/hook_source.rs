// hook file for ntp-proto/src/source.rs: declares the per-property harness modules
