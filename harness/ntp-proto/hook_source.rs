// hook file for ntp-proto/src/source.rs: declares the per-property harness modules
#[cfg(any(verif_all, verif_c13))]
#[path = "/verif/harness/ntp-proto/c13.rs"]
mod c13;
#[cfg(any(verif_all, verif_c11))]
#[path = "/verif/harness/ntp-proto/c11.rs"]
mod c11;
// --- builder S2 (C07 C08 C09 C10 C12 C14): shared machinery + one driver module per property
#[cfg(any(verif_all, verif_c07, verif_c08, verif_c09, verif_c10, verif_c12, verif_c14))]
#[path = "/verif/harness/ntp-proto/s2_source.rs"]
mod s2_source;
#[cfg(any(verif_all, verif_c07))]
#[path = "/verif/harness/ntp-proto/c07.rs"]
mod c07;
#[cfg(any(verif_all, verif_c08))]
#[path = "/verif/harness/ntp-proto/c08.rs"]
mod c08;
#[cfg(any(verif_all, verif_c09))]
#[path = "/verif/harness/ntp-proto/c09.rs"]
mod c09;
#[cfg(any(verif_all, verif_c10))]
#[path = "/verif/harness/ntp-proto/c10.rs"]
mod c10;
#[cfg(any(verif_all, verif_c12))]
#[path = "/verif/harness/ntp-proto/c12.rs"]
mod c12;
#[cfg(any(verif_all, verif_c14))]
#[path = "/verif/harness/ntp-proto/c14.rs"]
mod c14;
