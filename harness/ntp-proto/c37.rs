// C37 (and the controller level of C03): drive the real TimeSyncControllerWrapper message loop
// (`run`, the real source wrappers with their Drop impls) around the real KalmanClockController
// with a recording clock, on a current-thread tokio runtime.  Only the per-source Kalman filter is
// replaced: a scripted source controller hands out the snapshot the case prescribes.
//
// input tokens: <min_agreeing> <max_uncertainty f64 hex> <steer 0|1|2> then operations
//   steer 0: steering thresholds infinite (no steering call); 1: default steering configuration;
//         2: default thresholds but step_threshold infinite (offset corrections are always slews: the timer path)
//   A <id>            system: add_source (two-way)          O <id>   system: add_one_way_source (periodic)
//   M <id> <serial> <state time> <last_update> <leap> <offset> <variance> <delay>   source task: measurement
//   U <id> <0|1>      source task: set_usable               D <id>   source task: wrapper dropped
//   m/u/d ...         the same three messages written straight into the channel (ids without a live wrapper)
//   R                 let `run` drain the channel, then observe
//   T                 let (virtual) time pass beyond any armed deadline of the wrapper's sleeper: `run` drains the
//                     channel, then -- if its sleeper is enabled -- the sleeper fires and `run` calls time_update
// output tokens: <key(max_uncertainty)> then, in order of appearance,
//   K <key radius> <key lo> <key hi>                         for every M/m operation
//   R <n> <clock calls>*n <k> <used ids sorted>*k <j> (<id> <usable> <serial|-1> <state time>)*j <broadcasts>
//     <desired_freq != 0> <updates since the last R with next_update = Some> <s> then s step records, one per
//     source_message / time_update call of the controller since the last R, in order:
//     <kind 0 source_message | 1 time_update> <used_sources is Some> <next_update is Some> <c> <clock calls>*c
// clock calls: 1 disable_ntp_algorithm, 2 error_estimate_update, 30+leap status_update, 4 step_clock, 5 set_frequency
use super::super::*;
use crate::algorithm::kalman::matrix::{Matrix, Vector};
use crate::algorithm::{
    InternalSourceController, Measurement, OneWaySourceControllerWrapper, SourceController, TimeSyncController,
    TimeSyncControllerWrapper, TwoWaySourceControllerWrapper, WrapperMessage,
};
use crate::time_types::PollInterval;
use std::collections::VecDeque;
use std::fmt::Write;
use std::marker::PhantomData;
use std::sync::atomic::{AtomicUsize, Ordering};
use std::sync::{Arc, Mutex};

fn f(tok: &str) -> f64 {
    f64::from_bits(u64::from_str_radix(tok, 16).unwrap())
}

fn key(x: f64) -> i64 {
    let b = x.to_bits() as i64;
    b ^ ((((b >> 63) as u64) >> 1) as i64)
}

fn leap_of(code: &str) -> NtpLeapIndicator {
    match code {
        "0" => NtpLeapIndicator::NoWarning,
        "1" => NtpLeapIndicator::Leap61,
        "2" => NtpLeapIndicator::Leap59,
        "3" => NtpLeapIndicator::Unknown,
        _ => NtpLeapIndicator::Unsynchronized,
    }
}

fn leap_code(l: NtpLeapIndicator) -> i64 {
    match l {
        NtpLeapIndicator::NoWarning => 0,
        NtpLeapIndicator::Leap61 => 1,
        NtpLeapIndicator::Leap59 => 2,
        NtpLeapIndicator::Unknown => 3,
        NtpLeapIndicator::Unsynchronized => 4,
    }
}

#[derive(Clone)]
struct RecClock {
    log: Arc<Mutex<Vec<i64>>>,
}

impl NtpClock for RecClock {
    type Error = std::io::Error;
    fn now(&self) -> Result<NtpTimestamp, Self::Error> {
        Ok(NtpTimestamp::from_fixed_int(1 << 40))
    }
    fn set_frequency(&self, _freq: f64) -> Result<NtpTimestamp, Self::Error> {
        self.log.lock().unwrap().push(5);
        Ok(NtpTimestamp::from_fixed_int(1 << 40))
    }
    fn get_frequency(&self) -> Result<f64, Self::Error> {
        Ok(0.0)
    }
    fn step_clock(&self, _offset: NtpDuration) -> Result<NtpTimestamp, Self::Error> {
        self.log.lock().unwrap().push(4);
        Ok(NtpTimestamp::from_fixed_int(1 << 40))
    }
    fn disable_ntp_algorithm(&self) -> Result<(), Self::Error> {
        self.log.lock().unwrap().push(1);
        Ok(())
    }
    fn error_estimate_update(&self, _e: NtpDuration, _m: NtpDuration) -> Result<(), Self::Error> {
        self.log.lock().unwrap().push(2);
        Ok(())
    }
    fn status_update(&self, leap: NtpLeapIndicator) -> Result<(), Self::Error> {
        self.log.lock().unwrap().push(30 + leap_code(leap));
        Ok(())
    }
}

type Queue = Arc<Mutex<VecDeque<SourceSnapshot>>>;

// the scripted replacement of the per-source filter
struct Scripted<D> {
    queue: Queue,
    broadcasts: Arc<AtomicUsize>,
    _d: PhantomData<D>,
}

impl<D: Debug + Copy + Clone + Send + 'static> InternalSourceController for Scripted<D> {
    type ControllerMessage = KalmanControllerMessage;
    type SourceMessage = KalmanSourceMessage;
    type MeasurementDelay = D;
    fn handle_message(&mut self, _message: Self::ControllerMessage) {
        self.broadcasts.fetch_add(1, Ordering::SeqCst);
    }
    fn handle_measurement(
        &mut self,
        _measurement: crate::algorithm::InternalMeasurement<D>,
    ) -> Option<Self::SourceMessage> {
        self.queue.lock().unwrap().pop_front().map(|inner| KalmanSourceMessage { inner })
    }
    fn desired_poll_interval(&self) -> PollInterval {
        PollInterval::default()
    }
    fn observe(&self) -> ObservableSourceTimedata {
        ObservableSourceTimedata::default()
    }
}

type Steps = Arc<Mutex<Vec<Vec<i64>>>>;

thread_local! {
    static SHARED: std::cell::RefCell<Option<(Arc<AtomicUsize>, Arc<AtomicUsize>, Arc<Mutex<std::collections::HashMap<u64, Queue>>>, Steps)>> =
        const { std::cell::RefCell::new(None) };
}

const SENTINEL: ClockId = ClockId(u64::MAX);

// the real controller; every call is forwarded (a usability message for SENTINEL is the harness's drain marker)
struct Ctl {
    inner: KalmanClockController<RecClock>,
    processed: Arc<AtomicUsize>,
    broadcasts: Arc<AtomicUsize>,
    queues: Arc<Mutex<std::collections::HashMap<u64, Queue>>>,
    steps: Steps,
}

impl Ctl {
    // what one controller call made visible: its clock calls and the two fields of the returned update
    fn record(&self, kind: i64, before: usize, u: &InternalStateUpdate<KalmanControllerMessage>) {
        let calls: Vec<i64> = self.inner.clock.log.lock().unwrap()[before..].to_vec();
        let mut rec = vec![kind, u.used_sources.is_some() as i64, u.next_update.is_some() as i64, calls.len() as i64];
        rec.extend(calls);
        self.steps.lock().unwrap().push(rec);
    }

    fn queue(&self, id: ClockId) -> Queue {
        let q: Queue = Arc::new(Mutex::new(VecDeque::new()));
        self.queues.lock().unwrap().insert(id.0, q.clone());
        q
    }
}

impl InternalTimeSyncController for Ctl {
    type Clock = RecClock;
    type AlgorithmConfig = AlgorithmConfig;
    type ControllerMessage = KalmanControllerMessage;
    type SourceMessage = KalmanSourceMessage;
    type NtpSourceController = Scripted<NtpDuration>;
    type OneWaySourceController = Scripted<()>;

    fn new(clock: RecClock, s: SynchronizationConfig, a: AlgorithmConfig) -> Result<Self, std::io::Error> {
        let (processed, broadcasts, queues, steps) = SHARED.with(|s| s.borrow().clone().unwrap());
        Ok(Ctl { inner: KalmanClockController::new(clock, s, a)?, processed, broadcasts, queues, steps })
    }
    fn take_control(&mut self) -> Result<(), std::io::Error> {
        self.inner.take_control()
    }
    fn add_source(&mut self, id: ClockId, c: SourceConfig) -> Self::NtpSourceController {
        let _real = self.inner.add_source(id, c);
        Scripted { queue: self.queue(id), broadcasts: self.broadcasts.clone(), _d: PhantomData }
    }
    fn add_one_way_source(
        &mut self,
        id: ClockId,
        c: SourceConfig,
        n: f64,
        a: f64,
        period: Option<f64>,
    ) -> Self::OneWaySourceController {
        let _real = self.inner.add_one_way_source(id, c, n, a, period);
        Scripted { queue: self.queue(id), broadcasts: self.broadcasts.clone(), _d: PhantomData }
    }
    fn remove_source(&mut self, id: ClockId) {
        self.inner.remove_source(id);
    }
    fn source_update(&mut self, id: ClockId, usable: bool) {
        if id == SENTINEL {
            // the harness's drain marker: the channel is FIFO, so everything sent before it has been handled
            self.processed.fetch_add(1, Ordering::SeqCst);
            return;
        }
        self.inner.source_update(id, usable);
    }
    fn source_message(&mut self, id: ClockId, m: KalmanSourceMessage) -> InternalStateUpdate<KalmanControllerMessage> {
        let before = self.inner.clock.log.lock().unwrap().len();
        let u = self.inner.source_message(id, m);
        self.record(0, before, &u);
        u
    }
    fn time_update(&mut self) -> InternalStateUpdate<KalmanControllerMessage> {
        let before = self.inner.clock.log.lock().unwrap().len();
        let u = self.inner.time_update();
        self.record(1, before, &u);
        u
    }
}

enum Handle {
    Two(TwoWaySourceControllerWrapper<Scripted<NtpDuration>>),
    One(OneWaySourceControllerWrapper<Scripted<()>>),
}

fn snapshot(id: u64, t: &[&str], periodic: bool) -> SourceSnapshot {
    // t = serial, state time, last_update, leap, offset, variance, delay
    SourceSnapshot {
        index: ClockId(id),
        state: KalmanState {
            state: Vector::new_vector([f(t[4]), 0.0]),
            uncertainty: Matrix::new([[f(t[5]), 0.0], [0.0, 1e-12]]),
            time: NtpTimestamp::from_fixed_int(t[1].parse().unwrap()),
        },
        wander: 0.0,
        delay: f(t[6]),
        period: if periodic { Some(1.0) } else { None },
        source_uncertainty: NtpDuration::from_fixed_int(0),
        source_delay: NtpDuration::from_fixed_int(t[0].parse().unwrap()),
        leap_indicator: leap_of(t[3]),
        last_update: NtpTimestamp::from_fixed_int(t[2].parse().unwrap()),
    }
}

fn meas(sender: ClockId, receiver: ClockId) -> Measurement {
    Measurement {
        sender_id: sender,
        receiver_id: receiver,
        sender_ts: NtpTimestamp::from_fixed_int(0),
        receiver_ts: NtpTimestamp::from_fixed_int(0),
        root_delay: NtpDuration::from_fixed_int(0),
        root_dispersion: NtpDuration::from_fixed_int(0),
        leap: NtpLeapIndicator::NoWarning,
        precision: 0,
    }
}

#[test]
fn verif_c37_driver() {
    crate::verif_hook::drive(|t| run_case(t));
}

// one case (also used by C03's driver for its controller-level cases)
pub(crate) fn run_case(t: &[&str]) -> String {
    {
        let sync = SynchronizationConfig { minimum_agreeing_sources: t[0].parse().unwrap(), ..Default::default() };
        let mut algo = AlgorithmConfig { maximum_source_uncertainty: f(t[1]), ..Default::default() };
        if t[2] == "0" {
            // never steer: the snapshots the controller holds stay what the sources sent
            algo.steer_offset_threshold = f64::INFINITY;
            algo.steer_frequency_threshold = f64::INFINITY;
        }
        if t[2] == "2" {
            // never step: every offset correction is a slew, which arms the wrapper's timer
            algo.step_threshold = f64::INFINITY;
        }
        let log = Arc::new(Mutex::new(Vec::new()));
        let processed = Arc::new(AtomicUsize::new(0));
        let broadcasts = Arc::new(AtomicUsize::new(0));
        let queues = Arc::new(Mutex::new(std::collections::HashMap::new()));
        let steps: Steps = Arc::new(Mutex::new(Vec::new()));
        SHARED.with(|s| *s.borrow_mut() = Some((processed.clone(), broadcasts.clone(), queues.clone(), steps.clone())));
        let wrapper: Arc<TimeSyncControllerWrapper<Ctl>> =
            Arc::new(TimeSyncControllerWrapper::new(RecClock { log: log.clone() }, sync, algo).unwrap());
        let rt = tokio::runtime::Builder::new_current_thread().enable_time().start_paused(true).build().unwrap();
        let mut out = String::new();
        write!(out, "{}", key(algo.maximum_source_uncertainty)).unwrap();
        rt.block_on(async {
            let w2 = wrapper.clone();
            let task = tokio::spawn(async move { w2.run().await });
            let raw = wrapper.messages_for_system_sender.clone();
            let mut handles: std::collections::HashMap<u64, Handle> = std::collections::HashMap::new();
            let mut periodic: std::collections::HashMap<u64, bool> = std::collections::HashMap::new();
            let mut sent = 0usize;
            let mut i = 3;
            while i < t.len() {
                match t[i] {
                    "A" | "O" => {
                        let id: u64 = t[i + 1].parse().unwrap();
                        let h = if t[i] == "A" {
                            Handle::Two(wrapper.add_source(ClockId(id), SourceConfig::default()))
                        } else {
                            Handle::One(wrapper.add_one_way_source(ClockId(id), SourceConfig::default(), 1e-3, 1e-3, Some(1.0)))
                        };
                        periodic.insert(id, t[i] == "O");
                        // (a second add under the same id drops the previous wrapper: its Dropped message follows the add)
                        handles.insert(id, h);
                        i += 2;
                    }
                    "M" | "m" => {
                        let id: u64 = t[i + 1].parse().unwrap();
                        let s = snapshot(id, &t[i + 2..i + 9], *periodic.get(&id).unwrap_or(&false));
                        let radius = s.offset_uncertainty() * algo.range_statistical_weight + s.delay * algo.range_delay_weight;
                        write!(out, " K {} {} {}", key(radius), key(s.offset() - radius), key(s.offset() + radius)).unwrap();
                        if t[i] == "M" {
                            queues.lock().unwrap().get(&id).expect("M without wrapper").lock().unwrap().push_back(s);
                            match handles.get_mut(&id).expect("M without wrapper") {
                                Handle::Two(h) => {
                                    h.handle_measurement(meas(ClockId::SYSTEM, ClockId(id)));
                                    h.handle_measurement(meas(ClockId(id), ClockId::SYSTEM));
                                }
                                Handle::One(h) => h.handle_measurement(meas(ClockId(id), ClockId::SYSTEM)),
                            }
                        } else {
                            raw.send((ClockId(id), WrapperMessage::SourceMessage(KalmanSourceMessage { inner: s }))).ok();
                        }
                        i += 9;
                    }
                    "U" | "u" => {
                        let id: u64 = t[i + 1].parse().unwrap();
                        let b = t[i + 2] == "1";
                        if t[i] == "U" {
                            match handles.get_mut(&id).expect("U without wrapper") {
                                Handle::Two(h) => h.set_usable(b),
                                Handle::One(h) => h.set_usable(b),
                            }
                        } else {
                            raw.send((ClockId(id), WrapperMessage::UsabilityChange(b))).ok();
                        }
                        i += 3;
                    }
                    "D" | "d" => {
                        let id: u64 = t[i + 1].parse().unwrap();
                        if t[i] == "D" {
                            drop(handles.remove(&id).expect("D without wrapper"));
                        } else {
                            raw.send((ClockId(id), WrapperMessage::Dropped)).ok();
                        }
                        i += 2;
                    }
                    "R" => {
                        raw.send((SENTINEL, WrapperMessage::UsabilityChange(true))).ok();
                        sent += 1;
                        let mut spins = 0;
                        while processed.load(Ordering::SeqCst) < sent && spins < 100000 {
                            tokio::task::yield_now().await;
                            spins += 1;
                        }
                        if processed.load(Ordering::SeqCst) != sent {
                            write!(out, " STUCK {} {}", processed.load(Ordering::SeqCst), sent).unwrap();
                        }
                        let calls: Vec<i64> = std::mem::take(&mut *log.lock().unwrap());
                        write!(out, " R {}", calls.len()).unwrap();
                        for c in calls {
                            write!(out, " {}", c).unwrap();
                        }
                        let mut used: Vec<u64> = wrapper.synchronization_state().1.iter().map(|c| c.0).collect();
                        used.sort();
                        write!(out, " {}", used.len()).unwrap();
                        for u in used {
                            write!(out, " {}", u).unwrap();
                        }
                        let ctl = wrapper.inner.lock().unwrap();
                        let mut ents: Vec<(u64, bool, i64, u64)> = ctl
                            .inner
                            .sources
                            .iter()
                            .map(|(id, (s, usable))| match s {
                                Some(s) => (
                                    id.0,
                                    *usable,
                                    (s.source_delay.to_seconds() * 4294967296.0).round() as i64,
                                    u64::from_be_bytes(s.state.time.to_bits()),
                                ),
                                None => (id.0, *usable, -1, 0),
                            })
                            .collect();
                        ents.sort();
                        write!(out, " {}", ents.len()).unwrap();
                        for (id, u, s, tm) in ents {
                            write!(out, " {} {} {} {}", id, u as u8, s, tm).unwrap();
                        }
                        write!(out, " {}", broadcasts.swap(0, Ordering::SeqCst)).unwrap();
                        let st: Vec<Vec<i64>> = std::mem::take(&mut *steps.lock().unwrap());
                        write!(
                            out,
                            " {} {} {}",
                            (ctl.inner.desired_freq != 0.0) as u8,
                            st.iter().filter(|r| r[2] == 1).count(),
                            st.len()
                        )
                        .unwrap();
                        for r in st {
                            for x in r {
                                write!(out, " {}", x).unwrap();
                            }
                        }
                        i += 1;
                    }
                    "T" => {
                        // the paused clock only advances when every task is idle: `run` first handles what is
                        // queued, then the clock jumps to the sleeper's deadline (if enabled), then to ours
                        tokio::time::sleep(std::time::Duration::from_secs(100_000_000)).await;
                        i += 1;
                    }
                    other => panic!("bad op {}", other),
                }
            }
            drop(handles);
            task.abort();
            let _ = task.await;
        });
        out
    }
}
