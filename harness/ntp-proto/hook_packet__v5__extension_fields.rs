// hook file for ntp-proto/src/packet/v5/extension_fields.rs: declares the per-property harness modules
