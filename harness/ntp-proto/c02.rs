// C02: frequency corrections stay within the configured maximum.  Driver over k1_common.rs.
include!("/verif/harness/ntp-proto/k1_common.rs");

#[test]
fn verif_c02_driver() {
    crate::verif_hook::drive(|t| k1_run(t));
}
