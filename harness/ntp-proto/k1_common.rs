// Shared by c01.rs and c02.rs (include!): drives the real KalmanClockController with a
// recording mock clock.
//
// input tokens of a case:
//   sf sb gf gb acc      startup fwd/bwd, single fwd/bwd, accumulated threshold: "n" (None) or i64 units of 2^-32 s
//   x0..x7               step_threshold slew_max slew_min_dur max_freq off_thr off_left freq_thr freq_left:
//                        u64 bit pattern (decimal) or "d" (keep AlgorithmConfig::default())
//   f0                   bits of the frequency the kernel reports (get_frequency)
//   su                   1 = leave in_startup as new() sets it, 0 = clear it (as the repo's unit tests do)
//   minsrc               minimum_agreeing_sources
//   then operations:
//     A id | R id | U id 0/1                    add_source / remove_source / source_update(usable)
//     M id time o f p00 p01 p11 delay wander leap   source_message with that snapshot (f64 bits; time = fixed int)
//     T                                          time_update
//     SO change fd                               steer_offset (direct)
//     SF change                                  steer_frequency (direct)
// output tokens (all decimal):
//   8 b0..b7                                     the eight algorithm-config floats actually used
//   per A/R/U: nothing
//   per M: "6 0" (no consensus / early return / unknown id) or "6 1 off freq p00 p11 leapsome" = the combined
//          estimate the controller is about to use (tap: same select+combine calls on the same map, in the same
//          iteration order), then calls and state as below
//   per SO: "66 d" = NtpDuration::from_seconds(change), then calls and state
//   calls: 1 disable_ntp_algorithm | 2 d step_clock | 3 bits set_frequency | 4 error_estimate_update | 5 status_update
//   then "9 in_startup accumulated_steps freq_offset_bits desired_freq_bits", or "7 class" when the operation
//   panicked (1 "Threshold exceeded" = process::exit in production, 2 Duration::from_secs_f64, 3 f64::clamp assert,
//   9 anything else) and the case ends.
use super::super::*;
use crate::algorithm::kalman::matrix::{Matrix, Vector};
use crate::config::StepThreshold;
use std::sync::{Arc, Mutex};

#[derive(Debug, Clone)]
struct RecClock {
    log: Arc<Mutex<Vec<String>>>,
    f0: f64,
}

fn fbits(x: f64) -> u64 {
    if x.is_nan() { 0x7ff8000000000000 } else { x.to_bits() }
}

impl NtpClock for RecClock {
    type Error = std::io::Error;
    fn now(&self) -> Result<NtpTimestamp, Self::Error> {
        Ok(NtpTimestamp::from_fixed_int(0))
    }
    fn set_frequency(&self, freq: f64) -> Result<NtpTimestamp, Self::Error> {
        self.log.lock().unwrap().push(format!("3 {}", fbits(freq)));
        Ok(NtpTimestamp::from_fixed_int(0))
    }
    fn get_frequency(&self) -> Result<f64, Self::Error> {
        Ok(self.f0)
    }
    fn step_clock(&self, offset: NtpDuration) -> Result<NtpTimestamp, Self::Error> {
        self.log.lock().unwrap().push(format!("2 {}", offset.duration_i64()));
        Ok(NtpTimestamp::from_fixed_int(0))
    }
    fn disable_ntp_algorithm(&self) -> Result<(), Self::Error> {
        self.log.lock().unwrap().push("1".to_string());
        Ok(())
    }
    fn error_estimate_update(&self, _e: NtpDuration, _m: NtpDuration) -> Result<(), Self::Error> {
        self.log.lock().unwrap().push("4".to_string());
        Ok(())
    }
    fn status_update(&self, _l: NtpLeapIndicator) -> Result<(), Self::Error> {
        self.log.lock().unwrap().push("5".to_string());
        Ok(())
    }
}

trait DurI64 {
    fn duration_i64(self) -> i64;
}
impl DurI64 for NtpDuration {
    // the raw i64 of a duration: timestamp 0 + d wraps to d as u64 (Add<NtpDuration> for NtpTimestamp)
    fn duration_i64(self) -> i64 {
        i64::from_be_bytes((NtpTimestamp::from_fixed_int(0) + self).to_bits())
    }
}

fn opt_dur(t: &str) -> Option<NtpDuration> {
    if t == "n" { None } else { Some(NtpDuration::from_fixed_int(t.parse::<i64>().unwrap())) }
}
fn fl(t: &str) -> f64 {
    f64::from_bits(t.parse::<u64>().unwrap())
}
fn fl_or(t: &str, d: f64) -> f64 {
    if t == "d" { d } else { fl(t) }
}
fn leap_of(code: &str) -> NtpLeapIndicator {
    match code {
        "0" => NtpLeapIndicator::NoWarning,
        "1" => NtpLeapIndicator::Leap61,
        "2" => NtpLeapIndicator::Leap59,
        "3" => NtpLeapIndicator::Unknown,
        _ => NtpLeapIndicator::Unsynchronized,
    }
}

fn panic_class(e: &(dyn std::any::Any + Send)) -> u32 {
    let msg: String = if let Some(s) = e.downcast_ref::<&str>() {
        s.to_string()
    } else if let Some(s) = e.downcast_ref::<String>() {
        s.clone()
    } else {
        String::new()
    };
    if msg.contains("Threshold exceeded") {
        1
    } else if msg.contains("cannot convert float seconds to Duration") {
        2
    } else if msg.contains("min > max") {
        3
    } else {
        9
    }
}

// the estimate update_clock is about to combine, computed with the controller's own functions on the
// controller's own map (same iteration order), with `snap` put in place of source `id`
fn tap(algo: &KalmanClockController<RecClock>, id: ClockId, snap: SourceSnapshot, time: NtpTimestamp)
    -> Option<(KalmanState, bool)> {
    if !algo.sources.contains_key(&id) {
        return None;
    }
    let cur: Vec<(Option<SourceSnapshot>, bool)> = algo
        .sources
        .iter()
        .map(|(k, (s, u))| if *k == id { (Some(snap), *u) } else { (*s, *u) })
        .collect();
    if cur
        .iter()
        .filter_map(|(s, _)| s.map(|v| v.state.time))
        .any(|t| time - t < NtpDuration::ZERO)
    {
        return None;
    }
    let candidates: Vec<SourceSnapshot> = cur
        .iter()
        .filter_map(|(s, u)| if *u { s.as_ref() } else { None })
        .map(|s| {
            let mut s = *s;
            s.state = s.state.progress_time(time, s.wander, s.period);
            s
        })
        .collect();
    let selection = select::select(&algo.synchronization_config, &algo.algo_config, &candidates);
    combine(&selection, &algo.algo_config).map(|c| (c.estimate, c.leap_indicator.is_some()))
}

fn k1_run(t: &[&str]) -> String {
    let log = Arc::new(Mutex::new(Vec::<String>::new()));
    let mut out: Vec<String> = Vec::new();
    let d = AlgorithmConfig::default();
    let algo_config = AlgorithmConfig {
        step_threshold: fl_or(t[5], d.step_threshold),
        slew_maximum_frequency_offset: fl_or(t[6], d.slew_maximum_frequency_offset),
        slew_minimum_duration: fl_or(t[7], d.slew_minimum_duration),
        maximum_frequency_steer: fl_or(t[8], d.maximum_frequency_steer),
        steer_offset_threshold: fl_or(t[9], d.steer_offset_threshold),
        steer_offset_leftover: fl_or(t[10], d.steer_offset_leftover),
        steer_frequency_threshold: fl_or(t[11], d.steer_frequency_threshold),
        steer_frequency_leftover: fl_or(t[12], d.steer_frequency_leftover),
        maximum_source_uncertainty: f64::INFINITY,
        ignore_server_dispersion: true,
        ..d
    };
    out.push(format!(
        "8 {} {} {} {} {} {} {} {}",
        fbits(algo_config.step_threshold),
        fbits(algo_config.slew_maximum_frequency_offset),
        fbits(algo_config.slew_minimum_duration),
        fbits(algo_config.maximum_frequency_steer),
        fbits(algo_config.steer_offset_threshold),
        fbits(algo_config.steer_offset_leftover),
        fbits(algo_config.steer_frequency_threshold),
        fbits(algo_config.steer_frequency_leftover)
    ));
    let synchronization_config = SynchronizationConfig {
        minimum_agreeing_sources: t[15].parse().unwrap(),
        startup_step_panic_threshold: StepThreshold { forward: opt_dur(t[0]), backward: opt_dur(t[1]) },
        single_step_panic_threshold: StepThreshold { forward: opt_dur(t[2]), backward: opt_dur(t[3]) },
        accumulated_step_panic_threshold: opt_dur(t[4]),
        ..SynchronizationConfig::default()
    };
    let clock = RecClock { log: log.clone(), f0: fl(t[13]) };
    let mut algo = KalmanClockController::new(clock, synchronization_config, algo_config).unwrap();
    if t[14] == "0" {
        algo.in_startup = false;
    }
    log.lock().unwrap().clear();
    let mut i = 16;
    while i < t.len() {
        let opname = t[i];
        let mut steering = true;
        let mut pre: Vec<String> = Vec::new();
        let r = {
            let algo = &mut algo;
            let pre = &mut pre;
            let steering = &mut steering;
            let i = &mut i;
            std::panic::catch_unwind(std::panic::AssertUnwindSafe(move || match opname {
                "A" => {
                    let _ = algo.add_source(ClockId(t[*i + 1].parse().unwrap()), SourceConfig::default());
                    *steering = false;
                    *i += 2;
                }
                "R" => {
                    algo.remove_source(ClockId(t[*i + 1].parse().unwrap()));
                    *steering = false;
                    *i += 2;
                }
                "U" => {
                    algo.source_update(ClockId(t[*i + 1].parse().unwrap()), t[*i + 2] == "1");
                    *steering = false;
                    *i += 3;
                }
                "M" => {
                    let id = ClockId(t[*i + 1].parse().unwrap());
                    let time = NtpTimestamp::from_fixed_int(t[*i + 2].parse().unwrap());
                    let p01 = fl(t[*i + 6]);
                    let snap = SourceSnapshot {
                        index: id,
                        state: KalmanState {
                            state: Vector::new_vector([fl(t[*i + 3]), fl(t[*i + 4])]),
                            uncertainty: Matrix::new([[fl(t[*i + 5]), p01], [p01, fl(t[*i + 7])]]),
                            time,
                        },
                        wander: fl(t[*i + 9]),
                        delay: fl(t[*i + 8]),
                        period: None,
                        source_uncertainty: NtpDuration::ZERO,
                        source_delay: NtpDuration::ZERO,
                        leap_indicator: leap_of(t[*i + 10]),
                        last_update: time,
                    };
                    *i += 11;
                    let est = tap(algo, id, snap, time);
                    match est {
                        None => pre.push("6 0".to_string()),
                        Some((e, l)) => pre.push(format!(
                            "6 1 {} {} {} {} {}",
                            fbits(e.offset()),
                            fbits(e.frequency()),
                            fbits(e.offset_variance()),
                            fbits(e.frequency_variance()),
                            if l { 1 } else { 0 }
                        )),
                    }
                    let upd = algo.source_message(id, KalmanSourceMessage { inner: snap });
                    // cross-check of the tap: consensus and the covariance the controller published
                    if upd.used_sources.is_some() != est.is_some() {
                        pre.push("TAPMISMATCH-consensus".to_string());
                    }
                    if let Some((e, _)) = est {
                        if fbits(algo.timedata.root_variance_base) != fbits(e.offset_variance())
                            || fbits(algo.timedata.root_variance_quadratic) != fbits(e.frequency_variance())
                        {
                            pre.push("TAPMISMATCH-covariance".to_string());
                        }
                    }
                }
                "T" => {
                    let _ = algo.time_update();
                    *i += 1;
                }
                "SO" => {
                    let ch = fl(t[*i + 1]);
                    let fd = fl(t[*i + 2]);
                    *i += 3;
                    pre.push(format!("66 {}", NtpDuration::from_seconds(ch).duration_i64()));
                    let _ = algo.steer_offset(ch, fd);
                }
                "SF" => {
                    let ch = fl(t[*i + 1]);
                    *i += 2;
                    let _ = algo.steer_frequency(ch);
                }
                other => panic!("k1 harness: unknown operation {}", other),
            }))
        };
        out.append(&mut pre);
        out.append(&mut log.lock().unwrap());
        match r {
            Ok(()) => {
                if steering {
                    out.push(format!(
                        "9 {} {} {} {}",
                        if algo.in_startup { 1 } else { 0 },
                        algo.timedata.accumulated_steps.duration_i64(),
                        fbits(algo.freq_offset),
                        fbits(algo.desired_freq)
                    ));
                }
            }
            Err(e) => {
                out.push(format!("7 {}", panic_class(e.as_ref())));
                break;
            }
        }
    }
    out.join(" ")
}
