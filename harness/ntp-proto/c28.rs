// C28: NTS key exchange negotiates only mutually supported parameters.  Server cases and
// client cases of ntske_common.rs: the real KeyExchangeServer against a scripted TLS client,
// the real KeyExchangeClient::exchange_keys against a scripted TLS server.
include!("/verif/harness/ntp-proto/ntske_common.rs");

#[test]
fn verif_c28_driver() {
    drive_ntske();
}
