// hook file for ntp-proto/src/server.rs: declares the per-property harness modules
// --- builder P2a (C15, C20, C21, C22): shared scenario engine + one driver module per property
#[cfg(any(verif_all, verif_c15, verif_c20, verif_c21, verif_c22))]
#[path = "/verif/harness/ntp-proto/p2a_common.rs"]
mod p2a_common;
#[cfg(any(verif_all, verif_c20))]
#[path = "/verif/harness/ntp-proto/c20.rs"]
mod c20;
#[cfg(any(verif_all, verif_c15))]
#[path = "/verif/harness/ntp-proto/c15.rs"]
mod c15;
#[cfg(any(verif_all, verif_c21))]
#[path = "/verif/harness/ntp-proto/c21.rs"]
mod c21;
#[cfg(any(verif_all, verif_c22))]
#[path = "/verif/harness/ntp-proto/c22.rs"]
mod c22;
