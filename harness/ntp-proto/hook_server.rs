// hook file for ntp-proto/src/server.rs: declares the per-property harness modules
