// hook file for ntp-proto/src/algorithm/kalman/combiner.rs
#[cfg(any(verif_all, verif_c04))]
#[path = "/verif/harness/ntp-proto/c04.rs"]
mod c04;
