// C21: Server::handle scenarios (format and engine: p2a_common.rs).
use super::p2a_common::run_scenario;

#[test]
fn verif_c21_driver() {
    crate::verif_hook::drive(|t| run_scenario(t));
}
