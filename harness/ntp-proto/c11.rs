// C11: reach register / reset decision of the real NtpSource (see s1_srccore.rs for the case format)
include!("/verif/harness/ntp-proto/s1_srccore.rs");

#[test]
fn verif_c11_driver() {
    crate::verif_hook::drive(|t| run_case(t));
}
