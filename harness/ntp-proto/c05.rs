// C05: offset/delay on-wire formulas.  Drives the real TwoWaySourceControllerWrapper /
// OneWaySourceControllerWrapper with a recording inner controller.
//
// input tokens (all numbers decimal; timestamps u64, ids u64):
//   0 (id t1 t2 t3 t4)*   exchanges end to end: NtpSource::handle_timer -> forged server response with
//                         receive=t2 transmit=t3 -> NtpSource::handle_incoming(bytes, send_time=t1, recv_time=t4)
//                         -> measurements_from_packet -> wrapper.  The NtpSource test constructor fixes the id to 1,
//                         so the id token must be 1 in this mode.
//   1 (sender_id sender_ts receiver_ts)*   raw Measurement sequence through the two-way wrapper
//   2 sender_ts receiver_ts                one Measurement through the one-way wrapper
// output: for every InternalMeasurement delivered to the inner controller, in order:
//   mode 0/1: "delay offset localtime" ; mode 2: "offset localtime"   (durations as i64, timestamps as u64);
//   "-" when nothing was delivered.
use super::super::*;
use crate::packet::{NtpAssociationMode, NtpPacket};
use crate::source::{NtpSource, NtpSourceAction};
use crate::NoCipher;

struct Recorder<D: Debug + Copy + Clone> {
    seen: Vec<InternalMeasurement<D>>,
}

impl<D: Debug + Copy + Clone + Send + 'static> InternalSourceController for Recorder<D> {
    type ControllerMessage = ();
    type SourceMessage = ();
    type MeasurementDelay = D;

    fn handle_message(&mut self, _: Self::ControllerMessage) {}

    fn handle_measurement(&mut self, m: InternalMeasurement<D>) -> Option<()> {
        self.seen.push(m);
        None
    }

    fn desired_poll_interval(&self) -> PollInterval {
        PollInterval::default()
    }

    fn observe(&self) -> ObservableSourceTimedata {
        ObservableSourceTimedata::default()
    }
}

fn ts(tok: &str) -> NtpTimestamp {
    NtpTimestamp::from_fixed_int(tok.parse::<u64>().unwrap())
}

fn ts_raw(t: NtpTimestamp) -> u64 {
    u64::from_be_bytes(t.to_bits())
}

// the i64 inside an NtpDuration (the field is private to time_types): adding it to the zero
// timestamp is the identity on the bit pattern
fn dur_raw(d: NtpDuration) -> i64 {
    ts_raw(NtpTimestamp::from_fixed_int(0) + d) as i64
}

fn meas(sender: u64, s: NtpTimestamp, r: NtpTimestamp) -> Measurement {
    Measurement {
        sender_id: ClockId(sender),
        receiver_id: if sender == 0 { ClockId(1) } else { ClockId::SYSTEM },
        sender_ts: s,
        receiver_ts: r,
        root_delay: NtpDuration::from_fixed_int(0),
        root_dispersion: NtpDuration::from_fixed_int(0),
        leap: NtpLeapIndicator::NoWarning,
        precision: 0,
    }
}

fn render2(seen: &[InternalMeasurement<NtpDuration>]) -> String {
    if seen.is_empty() {
        return "-".to_string();
    }
    seen.iter()
        .map(|m| format!("{} {} {}", dur_raw(m.delay), dur_raw(m.offset), ts_raw(m.localtime)))
        .collect::<Vec<_>>()
        .join(" ")
}

#[test]
fn verif_c05_driver() {
    crate::verif_hook::drive(|t| {
        match t[0] {
            "0" => {
                let rec = Arc::new(Mutex::new(Recorder::<NtpDuration> { seen: Vec::new() }));
                let wrapper = TwoWaySourceControllerWrapper {
                    id: ClockId(1),
                    inner: rec.clone(),
                    last_outgoing_measurement: None,
                    messages_for_system: tokio::sync::mpsc::unbounded_channel().0,
                };
                let mut source = NtpSource::test_ntp_source(wrapper);
                for ex in t[1..].chunks(5) {
                    assert_eq!(ex[0], "1", "end-to-end mode runs with the test source id 1");
                    let mut outgoing = None;
                    for action in source.handle_timer() {
                        if let NtpSourceAction::Send(buf) = action {
                            outgoing = Some(buf);
                        }
                    }
                    let outgoing = outgoing.expect("no request sent");
                    let request = NtpPacket::deserialize(&outgoing, &NoCipher).unwrap().0;
                    let mut packet = NtpPacket::test();
                    packet.set_stratum(1);
                    packet.set_mode(NtpAssociationMode::Server);
                    packet.set_origin_timestamp(request.transmit_timestamp());
                    packet.set_receive_timestamp(ts(ex[2]));
                    packet.set_transmit_timestamp(ts(ex[3]));
                    let bytes = packet.serialize_without_encryption_vec(None).unwrap();
                    for _ in source.handle_incoming(&bytes, ts(ex[1]), ts(ex[4])) {}
                }
                let seen = rec.lock().unwrap().seen.clone();
                render2(&seen)
            }
            "1" => {
                let rec = Arc::new(Mutex::new(Recorder::<NtpDuration> { seen: Vec::new() }));
                let mut wrapper = TwoWaySourceControllerWrapper {
                    id: ClockId(1),
                    inner: rec.clone(),
                    last_outgoing_measurement: None,
                    messages_for_system: tokio::sync::mpsc::unbounded_channel().0,
                };
                for m in t[1..].chunks(3) {
                    wrapper.handle_measurement(meas(m[0].parse().unwrap(), ts(m[1]), ts(m[2])));
                }
                let seen = rec.lock().unwrap().seen.clone();
                render2(&seen)
            }
            _ => {
                let rec = Arc::new(Mutex::new(Recorder::<()> { seen: Vec::new() }));
                let mut wrapper = OneWaySourceControllerWrapper {
                    id: ClockId(1),
                    inner: rec.clone(),
                    messages_for_system: tokio::sync::mpsc::unbounded_channel().0,
                };
                wrapper.handle_measurement(meas(1, ts(t[1]), ts(t[2])));
                let seen = rec.lock().unwrap().seen.clone();
                if seen.is_empty() {
                    "-".to_string()
                } else {
                    seen.iter()
                        .map(|m| format!("{} {}", dur_raw(m.offset), ts_raw(m.localtime)))
                        .collect::<Vec<_>>()
                        .join(" ")
                }
            }
        }
    });
}
