// C20: rate limiting.  `cache ...` lines drive TimestampedCache::is_allowed directly with explicit
// instants (slot index read back through the private `index`); `srv ...` lines drive Server::handle
// sequences (see p2a_common.rs for both formats).
use super::p2a_common::{run_cache, run_scenario};

#[test]
fn verif_c20_driver() {
    crate::verif_hook::drive(|t| if t[0] == "cache" { run_cache(t) } else { run_scenario(t) });
}
