// hook file for ntp-proto/src/ipfilter.rs: declares the per-property harness modules
#[cfg(any(verif_all, verif_c31))]
#[path = "/verif/harness/ntp-proto/c31.rs"]
mod c31;
