// hook file for ntp-proto/src/ipfilter.rs: declares the per-property harness modules
