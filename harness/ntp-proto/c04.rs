// C04: drive combiner::vote_leap and combiner::combine on lists of leap indicators.
// input tokens: leap codes 0..4 (NoWarning, Leap61, Leap59, Unknown, Unsynchronized)
// output: "<vote> <combine-vote>"  with -1 = None, else the code; PANIC through the driver.
use super::super::*;
use crate::algorithm::kalman::{
    matrix::{Matrix, Vector},
    source::KalmanState,
};
use crate::time_types::NtpTimestamp;

fn leap_of(code: &str) -> NtpLeapIndicator {
    match code {
        "0" => NtpLeapIndicator::NoWarning,
        "1" => NtpLeapIndicator::Leap61,
        "2" => NtpLeapIndicator::Leap59,
        "3" => NtpLeapIndicator::Unknown,
        _ => NtpLeapIndicator::Unsynchronized,
    }
}

fn code_of(l: Option<NtpLeapIndicator>) -> i32 {
    match l {
        None => -1,
        Some(NtpLeapIndicator::NoWarning) => 0,
        Some(NtpLeapIndicator::Leap61) => 1,
        Some(NtpLeapIndicator::Leap59) => 2,
        Some(NtpLeapIndicator::Unknown) => 3,
        Some(NtpLeapIndicator::Unsynchronized) => 4,
    }
}

fn snapshot(i: usize, leap: NtpLeapIndicator) -> SourceSnapshot {
    SourceSnapshot {
        index: ClockId(i as u64),
        state: KalmanState {
            state: Vector::new_vector([0.001 * (i as f64), 0.0]),
            uncertainty: Matrix::new([[1e-6, 0.0], [0.0, 1e-12]]),
            time: NtpTimestamp::from_fixed_int(0),
        },
        wander: 0.0,
        delay: 0.0,
        period: None,
        source_uncertainty: NtpDuration::from_seconds(1e-3),
        source_delay: NtpDuration::from_seconds(0.01),
        leap_indicator: leap,
        last_update: NtpTimestamp::from_fixed_int(0),
    }
}

#[test]
fn verif_c04_driver() {
    crate::verif_hook::drive(|t| {
        let sel: Vec<SourceSnapshot> = t.iter().enumerate().map(|(i, c)| snapshot(i, leap_of(c))).collect();
        let v = vote_leap(&sel);
        let c = combine(&sel, &AlgorithmConfig::default());
        let cv = match c {
            None => -9,
            Some(c) => code_of(c.leap_indicator),
        };
        format!("{} {}", code_of(v), cv)
    });
}
