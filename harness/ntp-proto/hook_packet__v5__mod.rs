// hook file for ntp-proto/src/packet/v5/mod.rs: declares the per-property harness modules
