// C06: Kalman clock filter.  Child module of algorithm/kalman/source.rs (reaches its private items).
// One case per line: "<op> <integers...>"; floats travel as IEEE-754 bit patterns (decimal u64),
// every NaN printed as 0x7ff8000000000000.  Output: integers.
//  1 progress_time         state7 time wander period          -> state7
//  2 absorb_measurement    state7 h0 h1 value noise period    -> state7 p weight E      (E = exp oracle)
//  4 merge                 state7 state7                      -> state7
//  5 add_server_dispersion state7 d                           -> state7
//  6 process_offset_steering    state7 steer period           -> state7
//  7 process_frequency_steering state7 time steer wander period -> state7
//  8 chi_1                 chi                                -> p E
//  9 from_seconds x -> duration        10 to_seconds d -> x
// 11 TimeSnapshot::root_dispersion base lin quad cubic base_time now -> duration
// 12 AveragingBuffer mean/variance  d0..d7 -> mean variance
// 13 x % y
// 20 source history (see run_history)      30 whole-controller history, monitor only (see run_system)
use super::super::*;
use crate::algorithm::kalman::KalmanControllerMessageInner;
use crate::packet::NtpLeapIndicator;
use std::fmt::Write as _;

const NAN_BITS: u64 = 0x7ff8000000000000;

fn fl(t: &str) -> f64 {
    f64::from_bits(t.parse::<u64>().expect("float bits"))
}
fn bits(x: f64) -> u64 {
    if x.is_nan() { NAN_BITS } else { x.to_bits() }
}
fn int(t: &str) -> i64 {
    t.parse::<i64>().expect("i64")
}
fn uint(t: &str) -> u64 {
    t.parse::<u64>().expect("u64")
}
fn period(t: &str) -> Option<f64> {
    if t.starts_with('-') { None } else { Some(fl(t)) }
}
fn ts(t: &str) -> NtpTimestamp {
    NtpTimestamp::from_fixed_int(uint(t))
}
fn ts_raw(t: NtpTimestamp) -> u64 {
    u64::from_be_bytes(t.to_bits())
}
fn dur(v: i64) -> NtpDuration {
    NtpDuration::from_fixed_int(v)
}
fn dur_raw(d: NtpDuration) -> i64 {
    ts_raw(NtpTimestamp::from_fixed_int(0) + d) as i64
}

fn state(t: &[&str]) -> KalmanState {
    KalmanState {
        state: Vector::new_vector([fl(t[0]), fl(t[1])]),
        uncertainty: Matrix::new([[fl(t[2]), fl(t[3])], [fl(t[4]), fl(t[5])]]),
        time: ts(t[6]),
    }
}
fn put_state(o: &mut String, k: &KalmanState) {
    write!(
        o,
        "{} {} {} {} {} {} {} ",
        bits(k.state.ventry(0)),
        bits(k.state.ventry(1)),
        bits(k.uncertainty.entry(0, 0)),
        bits(k.uncertainty.entry(0, 1)),
        bits(k.uncertainty.entry(1, 0)),
        bits(k.uncertainty.entry(1, 1)),
        ts_raw(k.time)
    )
    .unwrap();
}

// the argument of chi_1 as absorb_measurement computes it (needed only to ask libm for the
// exp value that the model takes as an oracle)
fn exp_oracle(k: &KalmanState, h: Matrix<1, 2>, value: Vector<1>, noise: Matrix<1, 1>) -> f64 {
    let prediction = h * k.state;
    let difference = value - prediction;
    let dc = h * k.uncertainty * h.transpose() + noise;
    let chi = difference.inner(dc.inverse() * difference);
    let x = (chi / 2.).sqrt();
    (-(x * x)).exp()
}

fn period_corr(mut value: Vector<1>, prediction: Vector<1>, period: Option<f64>) -> Vector<1> {
    if let Some(period) = period {
        while (value - prediction).ventry(0) > period / 2.0 {
            value = value - Vector::new_vector([period]);
        }
        while (value - prediction).ventry(0) < -period / 2.0 {
            value = value + Vector::new_vector([period]);
        }
    }
    value
}

trait NoiseEnc {
    fn enc(&self, o: &mut String);
}
impl NoiseEnc for AveragingBuffer {
    fn enc(&self, o: &mut String) {
        for d in self.data {
            write!(o, "{} ", bits(d)).unwrap();
        }
        write!(o, "{} ", self.next_idx).unwrap();
    }
}
impl NoiseEnc for FixedMeasurementNoise {
    fn enc(&self, o: &mut String) {
        write!(o, "{} {} ", bits(self.precision), bits(self.accuracy)).unwrap();
    }
}

fn dump<D: Debug + Copy + Clone + Send + 'static, N: MeasurementNoiseEstimator<MeasurementDelay = D> + Clone + Send + NoiseEnc + 'static>(
    o: &mut String,
    c: &KalmanSourceController<D, N>,
    flag: i32,
    delay_raw: &dyn Fn(D) -> i64,
) {
    let ob = c.observe();
    write!(
        o,
        "{} {} {} {} {} {} {} {} ",
        flag,
        dur_raw(ob.offset),
        dur_raw(ob.uncertainty),
        dur_raw(ob.delay),
        dur_raw(ob.remote_delay),
        dur_raw(ob.remote_uncertainty),
        ts_raw(ob.last_update),
        c.desired_poll_interval().as_log()
    )
    .unwrap();
    match c.state.snapshot(c.index, &c.algo_config, c.period) {
        None => o.push_str("0 "),
        Some(sn) => {
            o.push_str("1 ");
            put_state(o, &sn.state);
            write!(o, "{} {} ", bits(sn.wander), bits(sn.delay)).unwrap();
        }
    }
    match &c.state.0 {
        SourceStateInner::Initial(f) => {
            write!(o, "0 {} {} ", f.samples, f.init_offset.next_idx).unwrap();
            for d in f.init_offset.data {
                write!(o, "{} ", bits(d)).unwrap();
            }
            f.noise_estimator.enc(o);
        }
        SourceStateInner::Stable(f) => {
            o.push_str("1 ");
            put_state(o, &f.state);
            write!(
                o,
                "{} {} {} {} {} ",
                bits(f.clock_wander),
                f.precision_score,
                f.poll_score,
                f.prev_was_outlier as i32,
                ts_raw(f.last_iter)
            )
            .unwrap();
            let l = &f.last_measurement;
            write!(
                o,
                "{} {} {} {} {} ",
                delay_raw(l.delay),
                dur_raw(l.offset),
                ts_raw(l.localtime),
                dur_raw(l.root_delay),
                dur_raw(l.root_dispersion)
            )
            .unwrap();
            f.noise_estimator.enc(o);
        }
    }
}

fn algo_config(t: &[&str]) -> (AlgorithmConfig, SourceConfig) {
    let a = AlgorithmConfig {
        precision_low_probability: fl(t[0]),
        precision_high_probability: fl(t[1]),
        precision_hysteresis: int(t[2]) as i32,
        precision_minimum_weight: fl(t[3]),
        poll_interval_low_weight: fl(t[4]),
        poll_interval_high_weight: fl(t[5]),
        poll_interval_hysteresis: int(t[6]) as i32,
        poll_interval_step_threshold: fl(t[7]),
        delay_outlier_threshold: fl(t[8]),
        initial_wander: fl(t[9]),
        initial_frequency_uncertainty: fl(t[10]),
        meddling_threshold: dur(int(t[11])),
        ..AlgorithmConfig::default()
    };
    let s = SourceConfig {
        poll_interval_limits: PollIntervalLimits {
            min: PollInterval::from_byte(int(t[12]) as i8 as u8),
            max: PollInterval::from_byte(int(t[13]) as i8 as u8),
        },
        initial_poll_interval: PollInterval::from_byte(int(t[14]) as i8 as u8),
    };
    (a, s)
}

// history of one source controller under a paused tokio clock.
// tokens after the 15 config numbers and the noise description: period stride, then events
//   1 delay offset time rdelay rdisp advance_ns | 2 steer | 3 steer time
// output: for every event "mono E" (oracles, 0 0 when not applicable), then the dumps of the
// events whose index is a multiple of stride, and of the last event.
fn run_history<D: Debug + Copy + Clone + Send + 'static, N: MeasurementNoiseEstimator<MeasurementDelay = D> + Clone + Send + NoiseEnc + 'static>(
    t: &[&str],
    full: bool,
    noise: N,
    mk_delay: &dyn Fn(i64) -> D,
    delay_raw: &dyn Fn(D) -> i64,
) -> String {
    let (algo, src) = algo_config(t);
    let per = period(t[15]);
    let stride = uint(t[16]) as usize;
    let mut c = KalmanSourceController::new(ClockId(0), algo, per, src, noise);
    let rt = tokio::runtime::Builder::new_current_thread()
        .enable_time()
        .start_paused(true)
        .build()
        .unwrap();
    let mut oracles = String::new();
    let mut dumps = String::new();
    rt.block_on(async {
        let mut i = 17;
        let mut n = 0usize;
        while i < t.len() {
            let flag;
            match t[i] {
                "1" => {
                    let m0 = InternalMeasurement {
                        delay: mk_delay(int(t[i + 1])),
                        offset: dur(int(t[i + 2])),
                        localtime: ts(t[i + 3]),
                        root_delay: dur(int(t[i + 4])),
                        root_dispersion: dur(int(t[i + 5])),
                        leap: NtpLeapIndicator::NoWarning,
                        precision: 0,
                    };
                    tokio::time::advance(std::time::Duration::from_nanos(uint(t[i + 6]))).await;
                    i += 7;
                    // oracles
                    let mut mono = 0i64;
                    let mut e = 0.0f64;
                    if let SourceStateInner::Stable(f) = &c.state.0 {
                        let now = tokio::time::Instant::now();
                        mono = dur_raw(NtpDuration::from_system_duration(
                            now.checked_duration_since(f.last_monotime).unwrap_or(std::time::Duration::ZERO),
                        ));
                        let mut g = f.clone();
                        let delay = g.noise_estimator.preprocess(m0.delay);
                        g.progress_filtertime(m0.localtime, per);
                        g.noise_estimator.update(delay);
                        let h = Matrix::new([[1., 0.]]);
                        let v = Vector::new_vector([m0.offset.to_seconds()]);
                        let v = period_corr(v, h * g.state.state, per);
                        e = exp_oracle(&g.state, h, v, Matrix::new([[g.noise_estimator.get_noise_estimate()]]));
                    }
                    write!(oracles, "{} {} ", mono, bits(e)).unwrap();
                    flag = c.handle_measurement(m0).is_some() as i32;
                }
                "2" => {
                    c.handle_message(KalmanControllerMessage {
                        inner: KalmanControllerMessageInner::Step { steer: fl(t[i + 1]) },
                    });
                    i += 2;
                    oracles.push_str("0 0 ");
                    flag = 2;
                }
                _ => {
                    c.handle_message(KalmanControllerMessage {
                        inner: KalmanControllerMessageInner::FreqChange { steer: fl(t[i + 1]), time: ts(t[i + 2]) },
                    });
                    i += 3;
                    oracles.push_str("0 0 ");
                    flag = 2;
                }
            }
            if n % stride == 0 || i >= t.len() {
                let mut d = String::new();
                dump(&mut d, &c, flag, delay_raw);
                if full {
                    dumps.push_str(&d);
                } else {
                    // hash unc kind nan  (hash as in Model/KalmanRun.v hashl; nan is for the monitor only)
                    let mut h: u128 = 0;
                    let mut unc = 0i128;
                    for (j, w) in d.split_whitespace().enumerate() {
                        let x: i128 = w.parse().unwrap();
                        if j == 2 {
                            unc = x;
                        }
                        h = (h * 1000003 + (x as u64 as u128)) % ((1u128 << 61) - 1);
                    }
                    let (kind, nan) = match &c.state.0 {
                        SourceStateInner::Initial(_) => (0, 0),
                        SourceStateInner::Stable(f) => {
                            let k = &f.state;
                            let fin = k.state.ventry(0).is_finite()
                                && k.state.ventry(1).is_finite()
                                && k.uncertainty.entry(0, 0).is_finite()
                                && k.uncertainty.entry(0, 1).is_finite()
                                && k.uncertainty.entry(1, 0).is_finite()
                                && k.uncertainty.entry(1, 1).is_finite();
                            (1, !fin as i32)
                        }
                    };
                    write!(dumps, "{} {} {} {} ", h, unc, kind, nan).unwrap();
                }
            }
            n += 1;
        }
    });
    oracles + &dumps
}

fn case(t: &[&str]) -> String {
    let mut o = String::new();
    let a = &t[1..];
    match t[0] {
        "1" => put_state(&mut o, &state(a).progress_time(ts(a[7]), fl(a[8]), period(a[9]))),
        "2" => {
            let k = state(a);
            let h = Matrix::new([[fl(a[7]), fl(a[8])]]);
            let v = Vector::new_vector([fl(a[9])]);
            let nz = Matrix::new([[fl(a[10])]]);
            let e = exp_oracle(&k, h, v, nz);
            let (k2, st) = k.absorb_measurement(h, v, nz, period(a[11]), |v, _, _| v);
            put_state(&mut o, &k2);
            write!(o, "{} {} {}", bits(st.observe_probability), bits(st.weight), bits(e)).unwrap();
        }
        "4" => put_state(&mut o, &state(a).merge(&state(&a[7..]))),
        "5" => put_state(&mut o, &state(a).add_server_dispersion(fl(a[7]))),
        "6" => put_state(&mut o, &state(a).process_offset_steering(fl(a[7]), period(a[8]))),
        "7" => put_state(
            &mut o,
            &state(a).process_frequency_steering(ts(a[7]), fl(a[8]), fl(a[9]), period(a[10])),
        ),
        "8" => {
            let chi = fl(a[0]);
            let x = (chi / 2.).sqrt();
            write!(o, "{} {}", bits(chi_1(chi)), bits((-(x * x)).exp())).unwrap();
        }
        "9" => write!(o, "{}", dur_raw(NtpDuration::from_seconds(fl(a[0])))).unwrap(),
        "10" => write!(o, "{}", bits(dur(int(a[0])).to_seconds())).unwrap(),
        "11" => {
            let s = crate::system::TimeSnapshot {
                root_variance_base: fl(a[0]),
                root_variance_linear: fl(a[1]),
                root_variance_quadratic: fl(a[2]),
                root_variance_cubic: fl(a[3]),
                root_variance_base_time: ts(a[4]),
                ..Default::default()
            };
            write!(o, "{}", dur_raw(s.root_dispersion(ts(a[5])))).unwrap();
        }
        "12" => {
            let mut b = AveragingBuffer::default();
            for i in 0..8 {
                b.data[i] = fl(a[i]);
            }
            write!(o, "{} {}", bits(b.mean()), bits(b.variance())).unwrap();
        }
        "13" => write!(o, "{}", bits(fl(a[0]) % fl(a[1]))).unwrap(),
        "20" | "21" => {
            let full = t[0] == "21";
            if a[15] == "0" {
                let mut v: Vec<&str> = a[..15].to_vec();
                v.extend_from_slice(&a[16..]);
                o = run_history(&v, full, AveragingBuffer::default(), &|d| dur(d), &|d| dur_raw(d));
            } else {
                let mut v: Vec<&str> = a[..15].to_vec();
                v.extend_from_slice(&a[18..]);
                let nz = FixedMeasurementNoise { precision: fl(a[16]), accuracy: fl(a[17]) };
                o = run_history(&v, full, nz, &|_| (), &|_| 0);
            }
        }
        "30" => o = c06_system::run_system(a),
        _ => o.push_str("-97"),
    }
    o
}

#[path = "/verif/harness/ntp-proto/c06_system.rs"]
mod c06_system;

#[test]
fn verif_c06_driver() {
    crate::verif_hook::drive(|t| case(t));
}
