// hook file for ntp-proto/src/algorithm/kalman/source.rs: declares the per-property harness modules
#[cfg(any(verif_all, verif_c06))]
#[path = "/verif/harness/ntp-proto/c06.rs"]
mod c06;
// --- builder S2: C10, poll-desire state machine
#[cfg(any(verif_all, verif_c10))]
#[path = "/verif/harness/ntp-proto/c10_desire.rs"]
mod c10_desire;
