// hook file for ntp-proto/src/algorithm/kalman/source.rs: declares the per-property harness modules
