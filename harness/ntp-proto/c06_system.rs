// C06 monitor harness: the real KalmanClockController with real two-way source controllers and a
// recording mock clock whose steering is fed back into the following measurements (paused tokio
// clock for the meddling detection).  No model is involved: the output is the property's own
// observables, counted.
// tokens: nsrc min_agree theta0(i64 fixed) drift(f64 bits) then events of 6 integers:
//   src dt(i64 fixed) noise(i64 fixed) delay(i64 fixed) root_delay root_dispersion
// output: events nonfinite_clock_args nonfinite_snapshot_floats negative_uncertainty
//         internal_nan_sources steps freq_sets used_nonempty resets first_bad_event
use super::super::super::*;
use super::{dur, dur_raw, fl, int, ts_raw, uint};
use crate::algorithm::kalman::KalmanClockController;
use crate::algorithm::{InternalSourceController, InternalTimeSyncController};
use crate::clock::NtpClock;
use crate::config::{StepThreshold, SynchronizationConfig};
use crate::packet::NtpLeapIndicator;
use std::sync::{Arc, Mutex};

#[derive(Debug, Default)]
struct Sim {
    local: u64,
    theta: f64, // true offset remote - local, seconds
    drift: f64, // true relative frequency of the remote clocks
    freq: f64,  // correction applied through set_frequency
    nonfinite: u64,
    steps: u64,
    freq_sets: u64,
}

#[derive(Debug, Clone)]
struct SimClock(Arc<Mutex<Sim>>);

impl NtpClock for SimClock {
    type Error = std::io::Error;
    fn now(&self) -> Result<NtpTimestamp, Self::Error> {
        Ok(NtpTimestamp::from_fixed_int(self.0.lock().unwrap().local))
    }
    fn set_frequency(&self, freq: f64) -> Result<NtpTimestamp, Self::Error> {
        let mut s = self.0.lock().unwrap();
        if !freq.is_finite() {
            s.nonfinite += 1;
        } else {
            s.freq = freq;
        }
        s.freq_sets += 1;
        Ok(NtpTimestamp::from_fixed_int(s.local))
    }
    fn get_frequency(&self) -> Result<f64, Self::Error> {
        Ok(self.0.lock().unwrap().freq)
    }
    fn step_clock(&self, offset: NtpDuration) -> Result<NtpTimestamp, Self::Error> {
        let mut s = self.0.lock().unwrap();
        s.local = ts_raw(NtpTimestamp::from_fixed_int(s.local) + offset);
        s.theta -= offset.to_seconds();
        s.steps += 1;
        Ok(NtpTimestamp::from_fixed_int(s.local))
    }
    fn disable_ntp_algorithm(&self) -> Result<(), Self::Error> {
        Ok(())
    }
    fn error_estimate_update(&self, _e: NtpDuration, _m: NtpDuration) -> Result<(), Self::Error> {
        Ok(())
    }
    fn status_update(&self, _l: NtpLeapIndicator) -> Result<(), Self::Error> {
        Ok(())
    }
}

pub(super) fn run_system(a: &[&str]) -> String {
    let nsrc = uint(a[0]) as usize;
    let sim = Arc::new(Mutex::new(Sim {
        local: 1u64 << 40,
        theta: dur(int(a[2])).to_seconds(),
        drift: fl(a[3]),
        ..Sim::default()
    }));
    let clock = SimClock(sim.clone());
    let none = StepThreshold { forward: None, backward: None };
    let sync = SynchronizationConfig {
        minimum_agreeing_sources: uint(a[1]) as usize,
        single_step_panic_threshold: none,
        startup_step_panic_threshold: none,
        accumulated_step_panic_threshold: None,
        ..SynchronizationConfig::default()
    };
    let algo = AlgorithmConfig::default();
    let mut ctl = KalmanClockController::new(clock, sync, algo).unwrap();
    ctl.take_control().unwrap();
    let mut srcs = Vec::new();
    for i in 0..nsrc {
        srcs.push(ctl.add_source(ClockId(i as u64), SourceConfig::default()));
        ctl.source_update(ClockId(i as u64), true);
    }
    let rt = tokio::runtime::Builder::new_current_thread()
        .enable_time()
        .start_paused(true)
        .build()
        .unwrap();
    let mut bad_snap = 0u64;
    let mut neg_unc = 0u64;
    let mut used_nonempty = 0u64;
    let mut resets = 0u64;
    let mut first_bad: i64 = -1;
    let mut events = 0u64;
    let mut pending: Option<f64> = None;
    rt.block_on(async {
        let mut i = 4;
        while i + 5 < a.len() {
            let s = uint(a[i]) as usize % nsrc;
            let dt = int(a[i + 1]);
            let dts = dur(dt).to_seconds();
            tokio::time::advance(std::time::Duration::from_secs_f64(dts.max(0.0))).await;
            let offset = {
                let mut g = sim.lock().unwrap();
                g.local = g.local.wrapping_add(dt as u64);
                g.theta += (g.drift - g.freq) * dts;
                NtpDuration::from_seconds(g.theta) + dur(int(a[i + 2]))
            };
            let mut updates = Vec::new();
            if let Some(p) = pending {
                if p <= dts {
                    pending = None;
                    updates.push(ctl.time_update());
                } else {
                    pending = Some(p - dts);
                }
            }
            let m = InternalMeasurement {
                delay: dur(int(a[i + 3])),
                offset,
                localtime: NtpTimestamp::from_fixed_int(sim.lock().unwrap().local),
                root_delay: dur(int(a[i + 4])),
                root_dispersion: dur(int(a[i + 5])),
                leap: NtpLeapIndicator::NoWarning,
                precision: 0,
            };
            let was_stable = matches!(srcs[s].state.0, SourceStateInner::Stable(_));
            if let Some(msg) = srcs[s].handle_measurement(m) {
                updates.push(ctl.source_message(ClockId(s as u64), msg));
            } else if was_stable && matches!(srcs[s].state.0, SourceStateInner::Initial(_)) {
                resets += 1;
            }
            for u in updates {
                if let Some(d) = u.next_update {
                    pending = Some(d.as_secs_f64());
                }
                if let Some(t) = u.time_snapshot {
                    if !(t.root_variance_base.is_finite()
                        && t.root_variance_linear.is_finite()
                        && t.root_variance_quadratic.is_finite()
                        && t.root_variance_cubic.is_finite())
                    {
                        bad_snap += 1;
                        if first_bad < 0 {
                            first_bad = events as i64;
                        }
                    }
                }
                if u.used_sources.as_ref().is_some_and(|v| !v.is_empty()) {
                    used_nonempty += 1;
                }
                if let Some(msg) = u.source_message {
                    for c in srcs.iter_mut() {
                        c.handle_message(msg.clone());
                    }
                }
            }
            for c in srcs.iter() {
                let ob = c.observe();
                if dur_raw(ob.uncertainty) < 0 {
                    neg_unc += 1;
                    if first_bad < 0 {
                        first_bad = events as i64;
                    }
                }
            }
            if sim.lock().unwrap().nonfinite > 0 && first_bad < 0 {
                first_bad = events as i64;
            }
            events += 1;
            i += 6;
        }
    });
    let mut nan_internal = 0;
    for c in srcs.iter() {
        if let SourceStateInner::Stable(f) = &c.state.0 {
            let k = &f.state;
            if !(k.state.ventry(0).is_finite()
                && k.state.ventry(1).is_finite()
                && k.uncertainty.entry(0, 0).is_finite()
                && k.uncertainty.entry(1, 1).is_finite())
            {
                nan_internal += 1;
            }
        }
    }
    let g = sim.lock().unwrap();
    format!(
        "{} {} {} {} {} {} {} {} {} {}",
        events, g.nonfinite, bad_snap, neg_unc, nan_internal, g.steps, g.freq_sets, used_nonempty, resets, first_bad
    )
}
