// C39: the numeric deserializers of ntp-proto/src/config.rs, driven without any text parser:
// a value tree is handed to `Deserialize::deserialize` through a minimal self-describing
// Deserializer (deserialize_any -> visit_f64 / visit_i64 / visit_u64 / visit_str / visit_bool /
// visit_map / visit_seq), so floats arrive with their exact bit patterns.
// input:  <op> <value>      op: T StepThreshold, P ThresholdPart, N NtpDuration,
//                               A deserialize_option_accumulated_step_panic_threshold
//   value tokens: f<16 hex digits> | i<dec> | u<dec> | s<hex of utf8, - for empty> | b | q (sequence)
//                 | m <n> (<key as s-token> <value>)*n
// output: T: "0 <fw> <bw>"   P/A: "0 <opt>"   N: "0 <raw>"     opt = "0" | "1 <raw i64>"
//         errors: "1" invalid value, "2" invalid type, "3" duplicate field, "4" unknown field, "9" other
use super::super::*;
use crate::time_types::NtpTimestamp;
use serde::de::value::{Error as VErr, MapDeserializer, SeqDeserializer};
use serde::de::IntoDeserializer;

#[derive(Clone, Debug)]
enum V {
    F(f64),
    I(i64),
    U(u64),
    S(String),
    B,
    Q,
    M(Vec<(String, V)>),
}

impl<'de> Deserializer<'de> for V {
    type Error = VErr;
    fn deserialize_any<W: Visitor<'de>>(self, visitor: W) -> Result<W::Value, VErr> {
        match self {
            V::F(x) => visitor.visit_f64(x),
            V::I(x) => visitor.visit_i64(x),
            V::U(x) => visitor.visit_u64(x),
            V::S(s) => visitor.visit_str(&s),
            V::B => visitor.visit_bool(true),
            V::Q => visitor.visit_seq(SeqDeserializer::new(vec![1u8, 2u8].into_iter())),
            V::M(es) => visitor.visit_map(MapDeserializer::new(es.into_iter())),
        }
    }
    serde::forward_to_deserialize_any! {
        bool i8 i16 i32 i64 i128 u8 u16 u32 u64 u128 f32 f64 char str string bytes byte_buf option
        unit unit_struct newtype_struct seq tuple tuple_struct map struct enum identifier ignored_any
    }
}

impl<'de> IntoDeserializer<'de, VErr> for V {
    type Deserializer = V;
    fn into_deserializer(self) -> V {
        self
    }
}

fn string_of(tok: &str) -> String {
    String::from_utf8(crate::verif_hook::unhex(&tok[1..])).unwrap()
}

fn parse(t: &[&str], pos: &mut usize) -> V {
    let tok = t[*pos];
    *pos += 1;
    match &tok[..1] {
        "f" => V::F(f64::from_bits(u64::from_str_radix(&tok[1..], 16).unwrap())),
        "i" => V::I(tok[1..].parse().unwrap()),
        "u" => V::U(tok[1..].parse().unwrap()),
        "s" => V::S(string_of(tok)),
        "b" => V::B,
        "q" => V::Q,
        "m" => {
            let n: usize = t[*pos].parse().unwrap();
            *pos += 1;
            let mut es = Vec::new();
            for _ in 0..n {
                let k = string_of(t[*pos]);
                *pos += 1;
                let v = parse(t, pos);
                es.push((k, v));
            }
            V::M(es)
        }
        _ => panic!("bad token"),
    }
}

fn raw(d: NtpDuration) -> i64 {
    u64::from_be_bytes((NtpTimestamp::from_fixed_int(0) + d).to_bits()) as i64
}

fn opt(o: Option<NtpDuration>) -> String {
    match o {
        None => "0".to_string(),
        Some(d) => format!("1 {}", raw(d)),
    }
}

fn class(e: &VErr) -> &'static str {
    let m = e.to_string();
    if m.starts_with("invalid value") {
        "1"
    } else if m.starts_with("invalid type") {
        "2"
    } else if m.starts_with("duplicate field") {
        "3"
    } else if m.starts_with("unknown field") {
        "4"
    } else {
        "9"
    }
}

#[test]
fn verif_c39_driver() {
    crate::verif_hook::drive(|t| {
        let mut pos = 1;
        let v = parse(t, &mut pos);
        match t[0] {
            "T" => match StepThreshold::deserialize(v) {
                Ok(st) => format!("0 {} {}", opt(st.forward), opt(st.backward)),
                Err(e) => class(&e).to_string(),
            },
            "P" => match ThresholdPart::deserialize(v) {
                Ok(p) => format!("0 {}", opt(p.0)),
                Err(e) => class(&e).to_string(),
            },
            "N" => match NtpDuration::deserialize(v) {
                Ok(d) => format!("0 {}", raw(d)),
                Err(e) => class(&e).to_string(),
            },
            "A" => match deserialize_option_accumulated_step_panic_threshold(v) {
                Ok(o) => format!("0 {}", opt(o)),
                Err(e) => class(&e).to_string(),
            },
            _ => "badop".to_string(),
        }
    });
}
