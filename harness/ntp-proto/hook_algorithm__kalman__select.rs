// hook file for ntp-proto/src/algorithm/kalman/select.rs: declares the per-property harness modules
