// hook file for ntp-proto/src/algorithm/kalman/select.rs: declares the per-property harness modules
#[cfg(any(verif_all, verif_c03))]
#[path = "/verif/harness/ntp-proto/c03.rs"]
mod c03;
