// hook file for ntp-proto/src/packet/v5/server_reference_id.rs: declares the per-property harness modules
