// hook file for ntp-proto/src/packet/v5/server_reference_id.rs: declares the per-property harness modules
#[cfg(any(verif_all, verif_c34))]
#[path = "/verif/harness/ntp-proto/c34.rs"]
mod c34;
