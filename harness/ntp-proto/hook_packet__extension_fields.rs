// hook file for ntp-proto/src/packet/extension_fields.rs: declares the per-property harness modules
