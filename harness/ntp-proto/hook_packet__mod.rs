// hook file for ntp-proto/src/packet/mod.rs: declares the per-property harness modules
