// hook file for ntp-proto/src/packet/mod.rs: declares the per-property harness modules
#[cfg(any(verif_all, verif_c16))]
#[path = "/verif/harness/ntp-proto/c16.rs"]
mod c16;
#[cfg(any(verif_all, verif_c17))]
#[path = "/verif/harness/ntp-proto/c17.rs"]
mod c17;
#[cfg(any(verif_all, verif_c18))]
#[path = "/verif/harness/ntp-proto/c18.rs"]
mod c18;
#[cfg(any(verif_all, verif_c19))]
#[path = "/verif/harness/ntp-proto/c19.rs"]
mod c19;
#[cfg(any(verif_all, verif_c23, verif_c24, verif_c25))]
#[path = "/verif/harness/ntp-proto/p1_common.rs"]
mod p1_common;
#[cfg(any(verif_all, verif_c23))]
#[path = "/verif/harness/ntp-proto/c23.rs"]
mod c23;
#[cfg(any(verif_all, verif_c24))]
#[path = "/verif/harness/ntp-proto/c24.rs"]
mod c24;
#[cfg(any(verif_all, verif_c25))]
#[path = "/verif/harness/ntp-proto/c25.rs"]
mod c25;
