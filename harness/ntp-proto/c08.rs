// C08: event histories against the real NtpSource (machinery and token language: s2_source.rs)
#[test]
fn verif_c08_driver() {
    crate::verif_hook::drive(|t| super::s2_source::run_history(t));
}
