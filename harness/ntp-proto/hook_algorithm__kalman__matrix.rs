// hook file for ntp-proto/src/algorithm/kalman/matrix.rs: declares the per-property harness modules
