// C32: every operation of NtpTimestamp / NtpDuration / PollInterval on raw integer inputs.
// input tokens:  <op> <args...>   (decimal integers; floats are u64 bit patterns in decimal;
//                mul/div carry the scalar type as last token)
// output tokens: the resulting integers (see coq/Model/TimeRun.v for the list per op); PANIC through the driver.
use super::super::*;

fn ts(t: &str) -> NtpTimestamp {
    NtpTimestamp { timestamp: t.parse::<u64>().unwrap() }
}
fn du(t: &str) -> NtpDuration {
    NtpDuration { duration: t.parse::<i64>().unwrap() }
}
fn pi(t: &str) -> PollInterval {
    PollInterval(t.parse::<i8>().unwrap())
}
fn lim(a: &str, b: &str) -> PollIntervalLimits {
    PollIntervalLimits { min: pi(a), max: pi(b) }
}

macro_rules! with_scalar {
    ($ty:expr, $k:expr, $f:ident, $a:expr) => {
        match $ty {
            "i8" => $f($a, $k.parse::<i8>().unwrap()),
            "i16" => $f($a, $k.parse::<i16>().unwrap()),
            "i32" => $f($a, $k.parse::<i32>().unwrap()),
            "i64" => $f($a, $k.parse::<i64>().unwrap()),
            "isize" => $f($a, $k.parse::<isize>().unwrap()),
            "u8" => $f($a, $k.parse::<u8>().unwrap()),
            "u16" => $f($a, $k.parse::<u16>().unwrap()),
            "u32" => $f($a, $k.parse::<u32>().unwrap()),
            other => panic!("harness: unknown scalar type {}", other),
        }
    };
}

fn mul3<S: Copy>(a: NtpDuration, k: S) -> String
where
    NtpDuration: Mul<S, Output = NtpDuration> + MulAssign<S>,
    S: Mul<NtpDuration, Output = NtpDuration>,
{
    let r1 = a * k;
    let r2 = k * a;
    let mut r3 = a;
    r3 *= k;
    format!("{} {} {}", r1.duration, r2.duration, r3.duration)
}

fn div2<S: Copy>(a: NtpDuration, k: S) -> String
where
    NtpDuration: Div<S, Output = NtpDuration> + DivAssign<S>,
{
    let r1 = a / k;
    let mut r2 = a;
    r2 /= k;
    format!("{} {}", r1.duration, r2.duration)
}

#[test]
fn verif_c32_driver() {
    crate::verif_hook::drive(|t| match t[0] {
        "1" => format!("{}", (ts(t[1]) - ts(t[2])).duration),
        "2" => {
            let mut x = ts(t[1]);
            x += du(t[2]);
            format!("{} {}", (ts(t[1]) + du(t[2])).timestamp, x.timestamp)
        }
        "3" => {
            let mut x = ts(t[1]);
            x -= du(t[2]);
            format!("{} {}", (ts(t[1]) - du(t[2])).timestamp, x.timestamp)
        }
        "4" => {
            let (a, b) = (ts(t[1]), ts(t[2]));
            let d = a - b;
            format!("{} {} {}", d.duration, (b + d).timestamp, (a - d).timestamp)
        }
        "5" => format!("{}", ts(t[1]).is_before(ts(t[2])) as u8),
        "6" => format!("{}", ts(t[1]).truncated_second_bits(t[2].parse::<u8>().unwrap()).timestamp),
        "7" => format!(
            "{}",
            NtpTimestamp::from_seconds_nanos_since_ntp_era(t[1].parse().unwrap(), t[2].parse().unwrap()).timestamp
        ),
        "10" => {
            let mut x = du(t[1]);
            x += du(t[2]);
            format!("{} {}", (du(t[1]) + du(t[2])).duration, x.duration)
        }
        "11" => {
            let mut x = du(t[1]);
            x -= du(t[2]);
            format!("{} {}", (du(t[1]) - du(t[2])).duration, x.duration)
        }
        "12" => format!("{}", (-du(t[1])).duration),
        "13" => format!("{}", du(t[1]).abs().duration),
        "14" => format!("{}", du(t[1]).abs_diff(du(t[2])).duration),
        "15" => with_scalar!(t[3], t[2], mul3, du(t[1])),
        "16" => with_scalar!(t[3], t[2], div2, du(t[1])),
        "17" => format!("{}", (du(t[1]) * FrequencyTolerance::ppm(t[2].parse().unwrap())).duration),
        "20" => format!("{}", NtpDuration::from_bits_short(t[1].parse::<u32>().unwrap().to_be_bytes()).duration),
        "21" => format!("{}", u32::from_be_bytes(du(t[1]).to_bits_short())),
        "22" => format!("{}", NtpDuration::from_bits_time32(t[1].parse::<u32>().unwrap().to_be_bytes()).duration),
        "23" => format!("{}", u32::from_be_bytes(du(t[1]).to_bits_time32())),
        "24" => {
            let w = du(t[1]).to_bits_short();
            format!("{} {}", u32::from_be_bytes(w), NtpDuration::from_bits_short(w).duration)
        }
        "25" => {
            let w = du(t[1]).to_bits_time32();
            format!("{} {}", u32::from_be_bytes(w), NtpDuration::from_bits_time32(w).duration)
        }
        "26" => {
            let (s, n) = du(t[1]).as_seconds_nanos();
            format!("{} {}", s, n)
        }
        "27" => format!("{}", NtpDuration::from_exponent(t[1].parse::<i8>().unwrap()).duration),
        "28" => format!("{}", du(t[1]).log2()),
        "29" => format!(
            "{}",
            NtpDuration::from_system_duration(Duration::new(t[1].parse().unwrap(), t[2].parse().unwrap())).duration
        ),
        "30" => format!("{}", pi(t[1]).inc(lim(t[2], t[3])).0),
        "31" => format!("{}", pi(t[1]).dec(lim(t[2], t[3])).0),
        "32" => format!("{}", pi(t[1]).force_inc().0),
        "33" => format!("{}", pi(t[1]).as_duration().duration),
        "34" => format!("{}", pi(t[1]).as_system_duration().as_secs()),
        "35" => format!("{}", PollInterval::from_byte(t[1].parse::<u8>().unwrap()).as_log()),
        "36" => format!("{}", pi(t[1]).as_byte()),
        "40" => format!("{}", du(t[1]).to_seconds().to_bits()),
        "41" => format!("{}", NtpDuration::from_seconds(f64::from_bits(t[1].parse::<u64>().unwrap())).duration),
        "42" => {
            let s = du(t[1]).to_seconds();
            format!("{} {}", s.to_bits(), NtpDuration::from_seconds(s).duration)
        }
        other => panic!("harness: unknown op {}", other),
    });
}
