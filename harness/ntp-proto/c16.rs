// C16 harness: the shared P2b driver (see p2b.rs for the case format), one test entry per property.
include!("/verif/harness/ntp-proto/p2b.rs");

#[test]
fn verif_c16_driver() {
    crate::verif_hook::drive(|t| p2b_case(t));
}
