// hook file for ntp-proto/src/packet/crypto.rs: declares the per-property harness modules
