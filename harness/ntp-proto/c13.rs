// C13: NTS cookie handling of the real NtpSource + CookieStash (see s1_srccore.rs for the case format)
include!("/verif/harness/ntp-proto/s1_srccore.rs");

#[test]
fn verif_c13_driver() {
    crate::verif_hook::drive(|t| run_case(t));
}
