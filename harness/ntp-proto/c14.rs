// C14: one handle_timer of a fresh source per grid point (nts, version, cookie length, stash fill)
#[test]
fn verif_c14_driver() {
    crate::verif_hook::drive(|t| super::s2_source::run_c14(t));
}
