// C30: drive the real async NTS-KE parsers (NtsRecord::parse, Request::parse,
// KeyExchangeResponse::parse) on in-memory readers and re-serialise what they accept.
//
// input tokens:  <op> <hex bytes>      op: rec | req | resp
// output tokens: <rt> <ints...>
//   rt   = 1 when the accepted value, re-serialised and followed by a fixed tail, parses back
//          to the same value leaving exactly the tail; 0 when it does not; - when nothing was accepted
//   ints = 0 <consumed> <value encoding> <len> <re-serialised bytes>     accepted
//          1 <error class> <consumed>                                    rejected
//   (a panic is reported by the shared driver as PANIC)
use std::future::Future;
use std::pin::pin;
use std::task::{Context, Poll, Waker};
use std::{format, string::String, vec::Vec};

use crate::nts::messages::{KeyExchangeResponse, Request};
use crate::nts::record::NtsRecord;
use crate::nts::{AeadAlgorithm, ErrorCode, NextProtocol, NtsError, WarningCode};

fn block_on<F: Future>(f: F) -> F::Output {
    let mut f = pin!(f);
    let mut cx = Context::from_waker(Waker::noop());
    for _ in 0..1_000_000 {
        if let Poll::Ready(v) = f.as_mut().poll(&mut cx) {
            return v;
        }
    }
    panic!("future did not complete on an in-memory reader");
}

const TAIL: [u8; 5] = [0xA5, 0x00, 0x80, 0x01, 0xFF];

fn bytes(o: &mut Vec<i64>, b: &[u8]) {
    o.push(b.len() as i64);
    o.extend(b.iter().map(|x| i64::from(*x)));
}

// the u16 value of an id; -1 when From<u16>/Into<u16> are not inverse on it (never for parsed values)
fn proto(p: NextProtocol) -> i64 {
    let v: u16 = p.into();
    if NextProtocol::from(v) == p { i64::from(v) } else { -1 }
}
fn alg(a: AeadAlgorithm) -> i64 {
    let v: u16 = a.into();
    if AeadAlgorithm::from(v) == a { i64::from(v) } else { -1 }
}
fn errc(e: ErrorCode) -> i64 {
    let v: u16 = e.into();
    if ErrorCode::from(v) == e { i64::from(v) } else { -1 }
}
fn warnc(w: WarningCode) -> i64 {
    let v: u16 = w.into();
    if WarningCode::from(v) == w { i64::from(v) } else { -1 }
}

fn enc_record(r: &NtsRecord<'_>) -> Vec<i64> {
    let mut o = Vec::new();
    match r {
        NtsRecord::EndOfMessage => o.push(0),
        NtsRecord::NextProtocol { protocol_ids } => {
            o.push(1);
            o.push(protocol_ids.len() as i64);
            o.extend(protocol_ids.iter().map(|p| proto(*p)));
        }
        NtsRecord::Error { errorcode } => {
            o.push(2);
            o.push(errc(*errorcode));
        }
        NtsRecord::Warning { warningcode } => {
            o.push(3);
            o.push(warnc(*warningcode));
        }
        NtsRecord::AeadAlgorithm { algorithm_ids } => {
            o.push(4);
            o.push(algorithm_ids.len() as i64);
            o.extend(algorithm_ids.iter().map(|a| alg(*a)));
        }
        NtsRecord::NewCookie { cookie_data } => {
            o.push(5);
            bytes(&mut o, cookie_data);
        }
        NtsRecord::Server { name } => {
            o.push(6);
            bytes(&mut o, name.as_bytes());
        }
        NtsRecord::Port { port } => {
            o.push(7);
            o.push(i64::from(*port));
        }
        NtsRecord::KeepAlive => o.push(8),
        NtsRecord::SupportedNextProtocolList { supported_protocols } => {
            o.push(9);
            o.push(supported_protocols.len() as i64);
            o.extend(supported_protocols.iter().map(|p| proto(*p)));
        }
        NtsRecord::SupportedAlgorithmList { supported_algorithms } => {
            o.push(10);
            o.push(supported_algorithms.len() as i64);
            for d in supported_algorithms.iter() {
                o.push(alg(d.id));
                o.push(i64::from(d.keysize));
            }
        }
        NtsRecord::FixedKeyRequest { c2s, s2c } => {
            o.push(12);
            bytes(&mut o, c2s);
            bytes(&mut o, s2c);
        }
        NtsRecord::NtpServerDeny { denied } => {
            o.push(13);
            bytes(&mut o, denied.as_bytes());
        }
        NtsRecord::Authentication { key } => {
            o.push(14);
            bytes(&mut o, key.as_bytes());
        }
        NtsRecord::Unknown { record_type, critical, data } => {
            o.push(99);
            o.push(i64::from(*record_type));
            o.push(i64::from(*critical));
            bytes(&mut o, data);
        }
    }
    o
}

fn enc_request(q: &Request<'_>) -> Vec<i64> {
    let mut o = Vec::new();
    match q {
        Request::KeyExchange { algorithms, protocols, denied_servers } => {
            o.push(0);
            o.push(algorithms.len() as i64);
            o.extend(algorithms.iter().map(|a| alg(*a)));
            o.push(protocols.len() as i64);
            o.extend(protocols.iter().map(|p| proto(*p)));
            o.push(denied_servers.len() as i64);
            for d in denied_servers.iter() {
                bytes(&mut o, d.as_bytes());
            }
        }
        Request::FixedKey { authentication, c2s_key, s2c_key, algorithm, protocol, keep_alive } => {
            o.push(1);
            bytes(&mut o, authentication.as_bytes());
            bytes(&mut o, c2s_key.key_bytes());
            bytes(&mut o, s2c_key.key_bytes());
            o.push(alg(*algorithm));
            o.push(proto(*protocol));
            o.push(i64::from(*keep_alive));
        }
        Request::Support { authentication, wants_protocols, wants_algorithms, keep_alive } => {
            o.push(2);
            bytes(&mut o, authentication.as_bytes());
            o.push(i64::from(*wants_protocols));
            o.push(i64::from(*wants_algorithms));
            o.push(i64::from(*keep_alive));
        }
    }
    o
}

fn enc_response(p: &KeyExchangeResponse<'_>) -> Vec<i64> {
    let mut o = Vec::new();
    o.push(proto(p.protocol));
    o.push(alg(p.algorithm));
    o.push(p.cookies.len() as i64);
    for c in p.cookies.iter() {
        bytes(&mut o, c);
    }
    match &p.server {
        Some(s) => {
            o.push(1);
            bytes(&mut o, s.as_bytes());
        }
        None => o.push(0),
    }
    match p.port {
        Some(v) => {
            o.push(1);
            o.push(i64::from(v));
        }
        None => o.push(0),
    }
    o.push(i64::from(p.keep_alive));
    o
}

fn io_class(e: &std::io::Error) -> i64 {
    match e.kind() {
        std::io::ErrorKind::UnexpectedEof => 1,
        std::io::ErrorKind::InvalidData => 2,
        _ => 9,
    }
}

pub(crate) fn nts_class(e: &NtsError) -> i64 {
    match e {
        NtsError::IO(e) => io_class(e),
        NtsError::Invalid => 3,
        NtsError::UnrecognizedCriticalRecord => 4,
        NtsError::NoOverlappingProtocol => 5,
        NtsError::NoOverlappingAlgorithm => 6,
        NtsError::UnknownWarning(c) => 7 + 16 * i64::from(*c),
        NtsError::Error(c) => 8 + 16 * errc(*c),
        NtsError::AeadNotSupported(v) => 10 + 16 * i64::from(*v),
        NtsError::IncorrectSizedKey => 11,
        NtsError::NotPermitted => 12,
        NtsError::Tls(_) => 13,
        NtsError::Dns(_) => 14,
        NtsError::NoCookie => 15,
    }
}

fn join(rt: &str, v: &[i64]) -> String {
    let mut s = String::from(rt);
    for x in v {
        s.push(' ');
        s.push_str(&format!("{x}"));
    }
    s
}

fn accepted(consumed: usize, enc: Vec<i64>, ser: &[u8], rt: bool) -> String {
    let mut o = std::vec![0, consumed as i64];
    o.extend(enc);
    bytes(&mut o, ser);
    join(if rt { "1" } else { "0" }, &o)
}

fn with_tail(ser: &[u8]) -> Vec<u8> {
    let mut v = ser.to_vec();
    v.extend_from_slice(&TAIL);
    v
}

fn do_record(input: &[u8]) -> String {
    let mut rd: &[u8] = input;
    let r = block_on(NtsRecord::parse(&mut rd));
    let consumed = input.len() - rd.len();
    match r {
        Err(e) => join("-", &[1, io_class(&e), consumed as i64]),
        Ok(rec) => {
            let mut ser = Vec::new();
            let sr = block_on(rec.serialize(&mut ser));
            let again = with_tail(&ser);
            let mut rd2: &[u8] = &again;
            let rt = sr.is_ok()
                && matches!(block_on(NtsRecord::parse(&mut rd2)), Ok(r2) if r2 == rec)
                && rd2 == TAIL.as_slice();
            accepted(consumed, enc_record(&rec), &ser, rt)
        }
    }
}

fn do_request(input: &[u8]) -> String {
    let mut rd: &[u8] = input;
    let r = block_on(Request::parse(&mut rd));
    let consumed = input.len() - rd.len();
    match r {
        Err(e) => join("-", &[1, nts_class(&e), consumed as i64]),
        Ok(q) => {
            let enc = enc_request(&q);
            let mut ser = Vec::new();
            let sr = block_on(q.serialize(&mut ser));
            let again = with_tail(&ser);
            let mut rd2: &[u8] = &again;
            let rt = sr.is_ok()
                && matches!(block_on(Request::parse(&mut rd2)), Ok(q2) if enc_request(&q2) == enc)
                && rd2 == TAIL.as_slice();
            accepted(consumed, enc, &ser, rt)
        }
    }
}

fn do_response(input: &[u8]) -> String {
    let mut rd: &[u8] = input;
    let r = block_on(KeyExchangeResponse::parse(&mut rd));
    let consumed = input.len() - rd.len();
    match r {
        Err(e) => join("-", &[1, nts_class(&e), consumed as i64]),
        Ok(p) => {
            let enc = enc_response(&p);
            let mut ser = Vec::new();
            let sr = block_on(p.serialize(&mut ser));
            let again = with_tail(&ser);
            let mut rd2: &[u8] = &again;
            let rt = sr.is_ok()
                && matches!(block_on(KeyExchangeResponse::parse(&mut rd2)), Ok(p2) if enc_response(&p2) == enc)
                && rd2 == TAIL.as_slice();
            accepted(consumed, enc, &ser, rt)
        }
    }
}

#[test]
fn verif_c30_driver() {
    crate::verif_hook::drive(|t| {
        let input = crate::verif_hook::unhex(t[1]);
        match t[0] {
            "rec" => do_record(&input),
            "req" => do_request(&input),
            _ => do_response(&input),
        }
    });
}
