// C33: accept_synchronization, NtpSnapshot::from_used_sources, NtpManager::update_used_sources,
// also end to end: NtpManager -> NtpSource (handle_timer, handle_incoming with a hand-built NTPv4
// answer) -> usable flag given to the controller and snapshot table -> advertised stratum / refid.
//
// case tokens:
//   A <local_stratum> <ip;ip;..|-> <stratum> <ip:ADDR|id:U32> <refid u32> <reach u8> <bloom 0|1|2>
//       bloom: 0 no filter, 1 complete filter with a few foreign ids, 2 filter with foreign ids and ours
//       output: n id_1 .. id_n  source_id  contains(-1|0|1)  code      (ids = ReferenceId::from_ip of the
//               local addresses, read back; code 0 Ok 1 ServerUnreachable 2 Loop 3 Distance 4 Stratum)
//   E <local_stratum> <ip;ip;..|-> <nsrc> {<clock id> <ADDR> <mode 0|1|2> <stratum> <refid u32>}*nsrc
//     <update> ...      update = "-" (no source) or  id.type,id.type,..   type 0 pps 1 sock 2 ntp 3 csptp
//       mode 0: source created only; 1: one timer; 2: one timer and a usable answer with (stratum, refid)
//       output: n id_1 .. id_n ; per source: source_id usable_after_timer(-1 if no timer) usable_after_answer(-1 if none);
//               per update: stratum refid  own_id_in_filter(0|1)
use super::super::*;
use crate::source::{NtpSourceAction, Reach};
use crate::{Measurement, NtpSourceSnapshot, PollInterval};
use std::fmt::Write as _;
use std::net::{IpAddr, SocketAddr};
use std::sync::atomic::{AtomicI32, Ordering};

struct Ctl(Arc<AtomicI32>);
impl SourceController for Ctl {
    fn handle_measurement(&mut self, _: Measurement) {}
    fn set_usable(&mut self, u: bool) {
        self.0.store(u as i32, Ordering::SeqCst);
    }
    fn desired_poll_interval(&self) -> PollInterval {
        PollInterval::default()
    }
    fn observe(&self) -> crate::ObservableSourceTimedata {
        crate::ObservableSourceTimedata::default()
    }
}

fn ips_of(s: &str) -> Vec<IpAddr> {
    if s == "-" {
        return Vec::new();
    }
    s.split(';').map(|x| x.parse().unwrap()).collect()
}

fn rid(r: ReferenceId) -> u32 {
    // ReferenceId is a u32 newtype that serializes as the number
    serde_json::to_string(&r).unwrap().parse().unwrap()
}

fn accept_case(t: &[&str]) -> std::string::String {
    let mut out = std::string::String::new();
    let local_stratum: u8 = t[0].parse().unwrap();
    let ips = ips_of(t[1]);
    write!(out, "{} ", ips.len()).unwrap();
    for ip in &ips {
        write!(out, "{} ", rid(ReferenceId::from_ip(*ip))).unwrap();
    }
    let stratum: u8 = t[2].parse().unwrap();
    let (source_addr, source_id) = if let Some(a) = t[3].strip_prefix("ip:") {
        let ip: IpAddr = a.parse().unwrap();
        (SocketAddr::new(ip, 123), ReferenceId::from_ip(ip))
    } else {
        (
            SocketAddr::new("192.0.2.1".parse().unwrap(), 123),
            ReferenceId::from_int(t[3][3..].parse().unwrap()),
        )
    };
    let reference_id = ReferenceId::from_int(t[4].parse().unwrap());
    let reach: Reach = serde_json::from_str(t[5]).unwrap();
    let server_id = ServerId::default();
    let bloom_filter = match t[6] {
        "0" => None,
        k => {
            let mut f = BloomFilter::new();
            for _ in 0..3 {
                f.add_id(&ServerId::default());
            }
            if k == "2" {
                f.add_id(&server_id);
            }
            Some(f)
        }
    };
    let contains = bloom_filter.map(|f| f.contains_id(&server_id) as i32).unwrap_or(-1);
    let snap = NtpSourceSnapshot {
        source_addr,
        source_id,
        poll_interval: PollInterval::default(),
        reach,
        stratum,
        reference_id,
        protocol_version: ProtocolVersion::V4,
        bloom_filter,
    };
    let code = match snap.accept_synchronization(local_stratum, &ips, server_id) {
        Ok(()) => 0,
        Err(crate::source::AcceptSynchronizationError::ServerUnreachable) => 1,
        Err(crate::source::AcceptSynchronizationError::Loop) => 2,
        Err(crate::source::AcceptSynchronizationError::Distance) => 3,
        Err(crate::source::AcceptSynchronizationError::Stratum) => 4,
    };
    write!(out, "{} {} {}", rid(source_id), contains, code).unwrap();
    out
}

fn end_to_end_case(t: &[&str]) -> std::string::String {
    let mut out = std::string::String::new();
    let local_stratum: u8 = t[0].parse().unwrap();
    let ips = ips_of(t[1]);
    write!(out, "{} ", ips.len()).unwrap();
    for ip in &ips {
        write!(out, "{} ", rid(ReferenceId::from_ip(*ip))).unwrap();
    }
    let cfg = SynchronizationConfig { local_stratum, ..Default::default() };
    let mgr = NtpManager::new(cfg, ips.clone().into());
    let n: usize = t[2].parse().unwrap();
    let mut pos = 3;
    let mut keep = Vec::new();
    for _ in 0..n {
        let id = ClockId(t[pos].parse().unwrap());
        let addr: IpAddr = t[pos + 1].parse().unwrap();
        let mode: u8 = t[pos + 2].parse().unwrap();
        let stratum: u8 = t[pos + 3].parse().unwrap();
        let refid: u32 = t[pos + 4].parse().unwrap();
        pos += 5;
        let flag = Arc::new(AtomicI32::new(-1));
        let (mut src, _) = mgr.new_source(
            SocketAddr::new(addr, 123),
            SourceConfig::default(),
            ProtocolVersion::V4,
            Ctl(flag.clone()),
            None,
            id,
        );
        let mut after_timer = -1;
        let mut after_answer = -1;
        if mode >= 1 {
            let mut req = None;
            for a in src.handle_timer() {
                if let NtpSourceAction::Send(b) = a {
                    req = Some(b);
                }
            }
            after_timer = flag.load(Ordering::SeqCst);
            if mode >= 2 {
                let req = req.unwrap();
                let mut h = vec![0u8; 48];
                h[0] = (4 << 3) | 4;
                h[1] = stratum;
                h[2] = req[2];
                h[3] = 0xEC;
                h[12..16].copy_from_slice(&refid.to_be_bytes());
                h[24..32].copy_from_slice(&req[40..48]);
                h[32..40].copy_from_slice(&[0xE0, 0, 0, 1, 0, 0, 0, 0]);
                h[40..48].copy_from_slice(&[0xE0, 0, 0, 1, 0, 0, 1, 0]);
                flag.store(-1, Ordering::SeqCst);
                let _ = src.handle_incoming(&h, NtpTimestamp::from_fixed_int(0), NtpTimestamp::from_fixed_int(400)).count();
                after_answer = flag.load(Ordering::SeqCst);
            }
        }
        write!(out, "{} {} {} ", rid(ReferenceId::from_ip(addr)), after_timer, after_answer).unwrap();
        keep.push(src);
    }
    for u in &t[pos..] {
        let used: Vec<(ClockId, SourceType)> = if *u == "-" {
            Vec::new()
        } else {
            u.split(',')
                .map(|e| {
                    let mut it = e.split('.');
                    let id = ClockId(it.next().unwrap().parse().unwrap());
                    let ty = match it.next().unwrap() {
                        "0" => SourceType::Pps,
                        "1" => SourceType::Sock,
                        "2" => SourceType::Ntp,
                        _ => SourceType::Csptp,
                    };
                    (id, ty)
                })
                .collect()
        };
        let snap = mgr.update_used_sources(used.into_iter());
        let published = mgr.observe();
        let same = snap.stratum == published.stratum && snap.reference_id == published.reference_id;
        let own = snap.bloom_filter.contains_id(&mgr.server_id) as u8;
        write!(out, "{} {} {} ", if same { snap.stratum as i32 } else { -5 }, rid(snap.reference_id), own).unwrap();
    }
    out
}

#[test]
fn verif_c33_driver() {
    crate::verif_hook::drive(|t| match t[0] {
        "A" => accept_case(&t[1..]),
        _ => end_to_end_case(&t[1..]),
    });
}
