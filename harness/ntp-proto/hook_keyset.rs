// hook file for ntp-proto/src/keyset.rs: declares the per-property harness modules
#[cfg(any(verif_all, verif_c26))]
#[path = "/verif/harness/ntp-proto/c26.rs"]
mod c26;
#[cfg(any(verif_all, verif_c27))]
#[path = "/verif/harness/ntp-proto/c27.rs"]
mod c27;
