// hook file for ntp-proto/src/keyset.rs: declares the per-property harness modules
