// C27 (ntp-proto part): KeySetProvider::load on prefixes of a file image, and KeySetProvider::store.
// input:  L <hex file> <n1,n2,...>     load the first n bytes for every listed n
//         S <id_offset> <primary> <key,key,...|->   store this key set
// output: per prefix  ok:<secs>:<id_offset>:<primary>:<keys|->:<usable>  |  e:<eof|other|?>  |  p (load panicked)
//         usable: 1 = a cookie can be issued and decodes back, 0 = using the key set panics, 2 = wrong content
//         for S: the stored bytes
use super::super::*;
use crate::verif_hook::{hex, unhex};
use std::sync::Arc;

fn usable(p: &KeySetProvider) -> u8 {
    let ks = p.get();
    let r = std::panic::catch_unwind(std::panic::AssertUnwindSafe(|| {
        let c = test_cookie();
        let b = ks.encode_cookie(&c);
        match ks.decode_cookie(&b) {
            Ok(d) => d.algorithm == c.algorithm && d.s2c.key_bytes() == c.s2c.key_bytes() && d.c2s.key_bytes() == c.c2s.key_bytes(),
            Err(_) => false,
        }
    }));
    match r {
        Ok(true) => 1,
        Ok(false) => 2,
        Err(_) => 0,
    }
}

#[test]
fn verif_c27_driver() {
    crate::verif_hook::drive(|t| {
        if t[0] == "S" {
            let keys: Vec<AesSivCmac512> = if t[3] == "-" {
                vec![]
            } else {
                t[3].split(',').map(|k| AesSivCmac512::try_from(unhex(k).iter()).unwrap()).collect()
            };
            let p = KeySetProvider {
                current: Arc::new(KeySet { keys, id_offset: t[1].parse().unwrap(), primary: t[2].parse().unwrap() }),
                history: 0,
            };
            let mut out = vec![];
            p.store(&mut out).unwrap();
            return hex(&out);
        }
        let file = unhex(t[1]);
        let mut out = vec![];
        for n in t[2].split(',') {
            let n: usize = n.parse().unwrap();
            let prefix = &file[..n.min(file.len())];
            let r = std::panic::catch_unwind(std::panic::AssertUnwindSafe(|| KeySetProvider::load(&mut &prefix[..], 3)));
            out.push(match r {
                Err(_) => "p".to_string(),
                Ok(Err(e)) => match e.kind() {
                    std::io::ErrorKind::UnexpectedEof => "e:eof".to_string(),
                    std::io::ErrorKind::Other => "e:other".to_string(),
                    _ => "e:?".to_string(),
                },
                Ok(Ok((p, time))) => {
                    let secs = time.duration_since(std::time::SystemTime::UNIX_EPOCH).map(|d| d.as_secs()).unwrap_or(u64::MAX);
                    let ks = p.get();
                    let keys: Vec<String> = ks.keys.iter().map(|k| hex(k.key_bytes())).collect();
                    format!("ok:{}:{}:{}:{}:{}", secs, ks.id_offset, ks.primary,
                        if keys.is_empty() { "-".to_string() } else { keys.join(",") }, usable(&p))
                }
            });
        }
        out.join(" ")
    });
}
