// Shared engine of the NTP-server-policy harnesses (C15, C20, C21, C22; builder P2a).
// Compiled as crate::server::verif_hook::p2a_common, so `super::super::*` reaches the
// private items of ntp-proto/src/server.rs (Server fields, TimestampedCache, intended_action).
//
// A scenario line (tokens after the case id):
//   srv <denyact i|d> <allowact i|d> <denylist a/m,a/m|-> <allowlist ...|-> <cache size> <cutoff ns>
//       <require-nts n|i|d> <accepted versions, digits|-> <stratum> <root_delay fixed i64> <clock fails 0|1>
//       <nops>  { <ip> <base> <premode -|0..7> <mutations -|m,m,...> <buffer len | = > <age ns> }*
//   base:      raw:<hex> | p3 | p4 | p5 | p4u | n4:<k> | n5:<k> | n4k | n5k | n4w | n5w | n4b:<k> | n5b:<k>
//              (p = plain poll of that version, p4u = upgrade request, n = NTS request with k cookie fields:
//               valid cookie / k: cookie of a foreign key set / w: encrypted under the wrong c2s key /
//               b: AesSivCmac512 session keys)
//   mutations: x<i>:<hexbyte> (xor byte i)  s<i>:<hexbyte> (set byte i)  t<n> (truncate to n)  a<hex> (append)
//   age:       every cache entry is back-dated by this many ns before the call (= that much time passed)
// Output per op, after a `|`:
//   <msg len> <byte0|-1> <parse 0 ok|1 decrypt|2 err> <ver 3|4|5|0> <client 0|1> <cookie 0|1> <fallback version>
//   <in deny> <in allow> <slot|-1> <probe answer len|-1 ignored|-2 probe panicked> <act 0 ignore|1 respond> <kind> <nregs> {<ver> <nts> <reason> <resp>}* <answer hex>
//   kind: 0 none, 1 time, 3 DENY kiss, 5 NTS NAK, 6 RATE kiss, 8 other kiss, 9 undecodable / not a server packet
//   reason: 0 RateLimit 1 ParseError 2 InvalidCrypto 3 InternalError 4 Policy; resp: 0 NTSNak 1 Deny 2 Ignore 3 ProvideTime
#![allow(dead_code, unused_imports)]
use super::super::*;
use crate::{
    packet::AesSivCmac256, packet::AesSivCmac512, nts::AeadAlgorithm, Cipher, DecodedServerCookie, KeySetProvider,
    NoCipher, NtpAssociationMode, NtpDuration, NtpLeapIndicator, PollIntervalLimits,
};
use std::fmt::Write as _;
use std::net::IpAddr;
use std::string::{String, ToString};
use std::vec::Vec;

#[derive(Debug, Clone)]
pub(crate) struct HClock {
    pub cur: NtpTimestamp,
    pub fail: bool,
}

impl NtpClock for HClock {
    type Error = std::io::Error;
    fn now(&self) -> Result<NtpTimestamp, Self::Error> {
        if self.fail {
            Err(std::io::Error::new(std::io::ErrorKind::Other, "verif: clock read fails"))
        } else {
            Ok(self.cur)
        }
    }
    fn set_frequency(&self, _freq: f64) -> Result<NtpTimestamp, Self::Error> {
        panic!("not called by the server")
    }
    fn get_frequency(&self) -> Result<f64, Self::Error> {
        Ok(0.0)
    }
    fn step_clock(&self, _offset: NtpDuration) -> Result<NtpTimestamp, Self::Error> {
        panic!("not called by the server")
    }
    fn disable_ntp_algorithm(&self) -> Result<(), Self::Error> {
        panic!("not called by the server")
    }
    fn error_estimate_update(&self, _e: NtpDuration, _m: NtpDuration) -> Result<(), Self::Error> {
        panic!("not called by the server")
    }
    fn status_update(&self, _l: NtpLeapIndicator) -> Result<(), Self::Error> {
        panic!("not called by the server")
    }
}

#[derive(Default)]
pub(crate) struct Recorder {
    pub regs: Vec<(u8, bool, ServerReason, ServerResponse)>,
}

impl ServerStatHandler for Recorder {
    fn register(&mut self, version: u8, nts: bool, reason: ServerReason, response: ServerResponse) {
        self.regs.push((version, nts, reason, response));
    }
}

pub(crate) fn reason_code(r: ServerReason) -> u8 {
    match r {
        ServerReason::RateLimit => 0,
        ServerReason::ParseError => 1,
        ServerReason::InvalidCrypto => 2,
        ServerReason::InternalError => 3,
        ServerReason::Policy => 4,
    }
}

pub(crate) fn response_code(r: ServerResponse) -> u8 {
    match r {
        ServerResponse::NTSNak => 0,
        ServerResponse::Deny => 1,
        ServerResponse::Ignore => 2,
        ServerResponse::ProvideTime => 3,
    }
}

fn action_of(s: &str) -> FilterAction {
    if s == "d" {
        FilterAction::Deny
    } else {
        FilterAction::Ignore
    }
}

fn subnets_of(s: &str) -> Vec<IpSubnet> {
    if s == "-" {
        return Vec::new();
    }
    s.split(',').map(|x| x.parse::<IpSubnet>().expect("subnet")).collect()
}

fn mode_of(m: u8) -> NtpAssociationMode {
    match m {
        0 => NtpAssociationMode::Reserved,
        1 => NtpAssociationMode::SymmetricActive,
        2 => NtpAssociationMode::SymmetricPassive,
        3 => NtpAssociationMode::Client,
        4 => NtpAssociationMode::Server,
        5 => NtpAssociationMode::Broadcast,
        6 => NtpAssociationMode::Control,
        _ => NtpAssociationMode::Private,
    }
}

fn ser(p: &NtpPacket, cipher: &dyn Cipher) -> Vec<u8> {
    let mut buf = std::vec![0u8; 4096];
    let mut cursor = Cursor::new(buf.as_mut_slice());
    p.serialize(&mut cursor, cipher, None).expect("serialize request");
    let end = cursor.position() as usize;
    buf.truncate(end);
    buf
}

fn ser_plain(p: &NtpPacket) -> Vec<u8> {
    let mut buf = std::vec![0u8; 4096];
    let mut cursor = Cursor::new(buf.as_mut_slice());
    p.serialize(&mut cursor, &NoCipher, None).expect("serialize request");
    let end = cursor.position() as usize;
    buf.truncate(end);
    buf
}

pub(crate) struct Session {
    pub cookie: DecodedServerCookie,
}

fn session(big: bool, seed: u8) -> DecodedServerCookie {
    if big {
        DecodedServerCookie {
            algorithm: AeadAlgorithm::AeadAesSivCmac512,
            s2c: std::boxed::Box::new(AesSivCmac512::new([seed; 64].into())),
            c2s: std::boxed::Box::new(AesSivCmac512::new([seed.wrapping_add(1); 64].into())),
        }
    } else {
        DecodedServerCookie {
            algorithm: AeadAlgorithm::AeadAesSivCmac256,
            s2c: std::boxed::Box::new(AesSivCmac256::new([seed; 32].into())),
            c2s: std::boxed::Box::new(AesSivCmac256::new([seed.wrapping_add(1); 32].into())),
        }
    }
}

/// builds the request bytes; returns (bytes, session keys if an NTS base was used)
fn build_request(base: &str, premode: &str, muts: &str, keyset: &KeySet) -> (Vec<u8>, Option<DecodedServerCookie>) {
    let poll = PollIntervalLimits::default().min;
    let pm = |p: &mut NtpPacket| {
        if premode != "-" {
            p.set_mode(mode_of(premode.parse::<u8>().unwrap()));
        }
    };
    let (mut bytes, sess) = if let Some(h) = base.strip_prefix("raw:") {
        (crate::verif_hook::unhex(h), None)
    } else if base == "p4" || base == "p3" {
        let (mut p, _) = NtpPacket::poll_message(poll);
        pm(&mut p);
        let mut b = ser_plain(&p);
        if base == "p3" {
            b[0] = (b[0] & 0b1100_0111) | (3 << 3);
        }
        (b, None)
    } else if base == "p4u" {
        let (mut p, _) = NtpPacket::poll_message_upgrade_request(poll);
        pm(&mut p);
        (ser_plain(&p), None)
    } else if base == "p5" {
        let (mut p, _) = NtpPacket::poll_message_v5(poll);
        pm(&mut p);
        (ser_plain(&p), None)
    } else if base.starts_with('n') {
        let v5 = base.as_bytes()[1] == b'5';
        let rest = &base[2..];
        let (flavour, k) = match rest.split_once(':') {
            Some((f, k)) => (f, k.parse::<u8>().unwrap()),
            None => (rest, 1),
        };
        let sess = session(flavour == "b", 7);
        let cookie = if flavour == "k" {
            KeySetProvider::new(1).get().encode_cookie(&sess)
        } else {
            keyset.encode_cookie(&sess)
        };
        let (mut p, _) = if v5 {
            NtpPacket::nts_poll_message_v5(&cookie, k, poll)
        } else {
            NtpPacket::nts_poll_message(&cookie, k, poll)
        };
        pm(&mut p);
        let b = if flavour == "w" {
            let wrong = session(false, 99);
            ser(&p, wrong.c2s.as_ref())
        } else {
            ser(&p, sess.c2s.as_ref())
        };
        (b, Some(sess))
    } else {
        panic!("verif harness: unknown base {}", base)
    };
    if muts != "-" {
        for m in muts.split(',') {
            let (op, arg) = m.split_at(1);
            match op {
                "x" | "s" => {
                    let (i, v) = arg.split_once(':').unwrap();
                    let i = i.parse::<usize>().unwrap();
                    let v = u8::from_str_radix(v, 16).unwrap();
                    if i < bytes.len() {
                        if op == "x" {
                            bytes[i] ^= v;
                        } else {
                            bytes[i] = v;
                        }
                    }
                }
                "t" => {
                    let n = arg.parse::<usize>().unwrap();
                    bytes.truncate(n);
                }
                "a" => bytes.extend(crate::verif_hook::unhex(arg)),
                _ => panic!("verif harness: unknown mutation {}", m),
            }
        }
    }
    (bytes, sess)
}

fn classify_answer(answer: &[u8], sess: &Option<DecodedServerCookie>) -> u8 {
    let parsed = match sess {
        Some(s) => NtpPacket::deserialize(answer, s.s2c.as_ref()),
        None => NtpPacket::deserialize(answer, &NoCipher),
    };
    let p = match parsed {
        Ok((p, _)) => p,
        Err(_) => return 9,
    };
    if p.mode() != NtpAssociationMode::Server {
        return 9;
    }
    if p.is_kiss() {
        if p.is_kiss_deny() {
            3
        } else if p.is_kiss_ntsn() {
            5
        } else if p.is_kiss_rate(PollIntervalLimits::default().min) {
            6
        } else {
            8
        }
    } else {
        1
    }
}

pub(crate) fn run_scenario(t: &[&str]) -> String {
    assert_eq!(t[0], "srv");
    let cache_size = t[5].parse::<usize>().unwrap();
    let cutoff = Duration::from_nanos(t[6].parse::<u64>().unwrap());
    let require_nts = match t[7] {
        "i" => Some(FilterAction::Ignore),
        "d" => Some(FilterAction::Deny),
        _ => None,
    };
    let accepted: Vec<NtpVersion> = if t[8] == "-" {
        Vec::new()
    } else {
        t[8].chars()
            .map(|c| match c {
                '3' => NtpVersion::V3,
                '4' => NtpVersion::V4,
                _ => NtpVersion::V5,
            })
            .collect()
    };
    let config = ServerConfig {
        denylist: FilterList { filter: subnets_of(t[3]), action: action_of(t[1]) },
        allowlist: FilterList { filter: subnets_of(t[4]), action: action_of(t[2]) },
        rate_limiting_cache_size: cache_size,
        rate_limiting_cutoff: cutoff,
        require_nts,
        accepted_versions: accepted,
    };
    let mut info = NtpServerInfo::default();
    info.ntp_snapshot.stratum = t[9].parse::<u8>().unwrap();
    info.time_snapshot.root_delay = NtpDuration::from_fixed_int(t[10].parse::<i64>().unwrap());
    let clock = HClock { cur: NtpTimestamp::from_fixed_int(200 << 32), fail: t[11] == "1" };
    let mut provider = KeySetProvider::new(2);
    provider.rotate();
    let keyset = provider.get();
    let mut server = Server::new_internal(config, clock, Arc::new(RwLock::new(info)), keyset.clone());
    let nops = t[12].parse::<usize>().unwrap();
    let mut out = String::new();
    for k in 0..nops {
        let o = &t[13 + 6 * k..13 + 6 * k + 6];
        let ip: IpAddr = o[0].parse().expect("ip");
        let (msg, sess) = build_request(o[1], o[2], o[3], &keyset);
        let buflen = if o[4] == "=" { msg.len() } else { o[4].parse::<usize>().unwrap() };
        let age = Duration::from_nanos(o[5].parse::<u64>().unwrap());
        // simulated passage of time: back-date every cache entry
        if !age.is_zero() {
            for e in server.client_cache.elements.iter_mut() {
                if let Some((_, ts)) = e {
                    *ts = ts.checked_sub(age).expect("verif harness: Instant underflow");
                }
            }
        }
        // request summary through the real decoder (the byte-level decoder is another property's subject)
        let (parse, ver, client, cookie) = match NtpPacket::deserialize(&msg, keyset.as_ref()) {
            Ok((p, c)) => (0, p.version().as_u8(), p.mode() == NtpAssociationMode::Client, c.is_some()),
            Err(PacketParsingError::DecryptError(p)) => (1, p.version().as_u8(), p.mode() == NtpAssociationMode::Client, false),
            Err(_) => (2, 0, false, false),
        };
        let fbv = fallback_message_version(&msg);
        let in_deny = server.denyfilter.is_in(ip);
        let in_allow = server.allowfilter.is_in(ip);
        let slot: i64 = if cache_size == 0 { -1 } else { server.client_cache.index(&ip) as i64 };
        // probe: the same call with an ample buffer tells how long the answer is; the cache is restored afterwards
        let saved = server.client_cache.elements.clone();
        let mut big = std::vec![0u8; 70000];
        let mut dummy = Recorder::default();
        let probe: i64 = std::panic::catch_unwind(std::panic::AssertUnwindSafe(|| {
            match server.handle(ip, NtpTimestamp::from_fixed_int(100 << 32), &msg, &mut big, &mut dummy) {
                ServerAction::Ignore => -1,
                ServerAction::Respond { message } => message.len() as i64,
            }
        }))
        .unwrap_or(-2);
        server.client_cache.elements = saved;
        // the observed call
        let mut buf = std::vec![0u8; buflen];
        let mut rec = Recorder::default();
        let (act, kind, anshex) = match server.handle(ip, NtpTimestamp::from_fixed_int(100 << 32), &msg, &mut buf, &mut rec) {
            ServerAction::Ignore => (0, 0, "-".to_string()),
            ServerAction::Respond { message } => (1, classify_answer(message, &sess), crate::verif_hook::hex(message)),
        };
        write!(
            out,
            "| {} {} {} {} {} {} {} {} {} {} {} {} {} {}",
            msg.len(),
            msg.first().map_or(-1, |b| *b as i32),
            parse,
            ver,
            client as u8,
            cookie as u8,
            fbv,
            in_deny as u8,
            in_allow as u8,
            slot,
            probe,
            act,
            kind,
            rec.regs.len()
        )
        .unwrap();
        for (v, n, r, a) in rec.regs.iter() {
            write!(out, " {} {} {} {}", v, *n as u8, reason_code(*r), response_code(*a)).unwrap();
        }
        write!(out, " {} ", anshex).unwrap();
    }
    out
}

/// cache <n> <cutoff ns> <ncalls> { <ip> <t ns> }*   ->  { <slot> <allowed 0|1> }*  F { - | <ip>@<t> }*n
pub(crate) fn run_cache(t: &[&str]) -> String {
    assert_eq!(t[0], "cache");
    let n = t[1].parse::<usize>().unwrap();
    let cutoff = Duration::from_nanos(t[2].parse::<u64>().unwrap());
    let calls = t[3].parse::<usize>().unwrap();
    let base = Instant::now() + Duration::from_secs(1000);
    let mut cache: TimestampedCache<IpAddr> = TimestampedCache::new(n);
    let mut names: Vec<(IpAddr, String)> = Vec::new();
    let mut out = String::new();
    for k in 0..calls {
        let ip: IpAddr = t[4 + 2 * k].parse().expect("ip");
        if !names.iter().any(|(a, _)| *a == ip) {
            names.push((ip, t[4 + 2 * k].to_string()));
        }
        let ts = base + Duration::from_nanos(t[5 + 2 * k].parse::<u64>().unwrap());
        let slot: i64 = if n == 0 { -1 } else { cache.index(&ip) as i64 };
        let ok = cache.is_allowed(ip, ts, cutoff);
        write!(out, "{} {} ", slot, ok as u8).unwrap();
    }
    out.push('F');
    for e in cache.elements.iter() {
        match e {
            None => out.push_str(" -"),
            Some((ip, ts)) => {
                let name = &names.iter().find(|(a, _)| a == ip).unwrap().1;
                write!(out, " {}@{}", name, ts.duration_since(base).as_nanos()).unwrap();
            }
        }
    }
    out
}
