// hook file for ntp-proto/src/cookiestash.rs: declares the per-property harness modules
