// hook file for ntp-proto/src/identifiers.rs: declares the per-property harness modules
