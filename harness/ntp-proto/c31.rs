// C31: drive IpFilter::new / IpFilter::is_in (and through them BitTree::create / lookup) and
// IpSubnet::from_str.
//
// filter case:  F S4:<8 hex>/<mask> S6:<32 hex>/<mask> ... A4:<8 hex> A6:<32 hex> ...
//   output:     <0|1 per address> T <len4> <hash4> <len6> <hash6>
//               (length and a polynomial hash of the two node arrays: the model mirrors the layout)
// dump case:    D S.. ..   output: the two node arrays in full (debugging aid)
// parse case:   P <hex of the utf-8 subnet string>
//   output:     <split 0|1> <addr family 0|4|6> <addr hex> <mask or -1> R <0 fam hex mask | error code>
//               the first four are the results of the std parsers on the two halves (oracles of the model)
use super::super::*;
use crate::server::SubnetParseError;
use std::net::{IpAddr, Ipv4Addr, Ipv6Addr};

fn parse_addr(fam: &str, hex: &str) -> IpAddr {
    let v = u128::from_str_radix(hex, 16).unwrap();
    if fam == "4" {
        IpAddr::V4(Ipv4Addr::from(v as u32))
    } else {
        IpAddr::V6(Ipv6Addr::from(v))
    }
}

fn hash_nodes(t: &BitTree) -> (usize, u128) {
    let m: u128 = (1u128 << 61) - 1;
    let mut h: u128 = 7;
    for n in &t.nodes {
        for x in [n.child_offset as u128, n.inset as u128, n.outset as u128] {
            h = (h * 1_000_003 + x + 1) % m;
        }
    }
    (t.nodes.len(), h)
}

fn addr_tokens(a: IpAddr) -> String {
    match a {
        IpAddr::V4(a) => format!("4 {:x}", u32::from_be_bytes(a.octets())),
        IpAddr::V6(a) => format!("6 {:x}", u128::from_be_bytes(a.octets())),
    }
}

#[test]
fn verif_c31_driver() {
    crate::verif_hook::drive(|t| {
        match t[0] {
            "F" | "D" => {
                let mut subnets = Vec::new();
                let mut addrs = Vec::new();
                for tok in &t[1..] {
                    let (kind, rest) = tok.split_at(3);
                    let fam = &kind[1..2];
                    if kind.starts_with('S') {
                        let (hex, mask) = rest.split_once('/').unwrap();
                        subnets.push(IpSubnet {
                            addr: parse_addr(fam, hex),
                            mask: mask.parse().unwrap(),
                        });
                    } else {
                        addrs.push(parse_addr(fam, rest));
                    }
                }
                let filter = IpFilter::new(&subnets);
                let mut out = String::new();
                for a in addrs {
                    out.push_str(if filter.is_in(a) { "1 " } else { "0 " });
                }
                if t[0] == "D" {
                    for (name, tr) in [("T4", &filter.ipv4_filter), ("T6", &filter.ipv6_filter)] {
                        out.push_str(name);
                        for n in &tr.nodes {
                            out.push_str(&format!(" {}:{:04x}:{:04x}", n.child_offset, n.inset, n.outset));
                        }
                        out.push(' ');
                    }
                    return out;
                }
                let (l4, h4) = hash_nodes(&filter.ipv4_filter);
                let (l6, h6) = hash_nodes(&filter.ipv6_filter);
                format!("{out}T {l4} {h4} {l6} {h6}")
            }
            _ => {
                let bytes = crate::verif_hook::unhex(t[1]);
                let s = String::from_utf8(bytes).unwrap();
                let oracles = match s.split_once('/') {
                    None => "0 0 0 -1".to_string(),
                    Some((a, m)) => {
                        let a = match a.parse::<IpAddr>() {
                            Ok(a) => addr_tokens(a),
                            Err(_) => "0 0".to_string(),
                        };
                        let m = match m.parse::<u8>() {
                            Ok(m) => m as i32,
                            Err(_) => -1,
                        };
                        format!("1 {a} {m}")
                    }
                };
                let r = match s.parse::<IpSubnet>() {
                    Ok(sn) => format!("0 {} {}", addr_tokens(sn.addr), sn.mask),
                    Err(SubnetParseError::Subnet) => "1".to_string(),
                    Err(SubnetParseError::Ip(_)) => "2".to_string(),
                    Err(SubnetParseError::Mask) => "3".to_string(),
                    Err(SubnetParseError::MaskV4Range) => "4".to_string(),
                };
                format!("{oracles} R {r}")
            }
        }
    });
}
