// C25: tampered NTS packets.  Same operations as c23.rs (N / C / R / S decode a datagram in a key
// context, MK makes genuine NTS material with the real encoder and the real AES-SIV ciphers and
// reports the genuine AEAD tuples); the driver tools/props/c25.py modifies the genuine packets
// bit by bit and byte by byte.
// output: the flat encoding of coq/Model/Packet.v enc_outcome; PANIC through the driver.
use super::p1_common::*;

#[test]
fn verif_c25_driver() {
    crate::verif_hook::drive(|t| decode_op(t));
}
