// Shared by c11.rs and c13.rs (include!): drives the real NtpSource through
// handle_timer / handle_incoming with datagrams built for the request it just sent.
//
// case tokens:  <cfg> <event> <event> ...
//   cfg    P4 | PU | PX | P5   plain source starting as V4 / V4UpgradingToV5 / UpgradedToV5 / V5
//          N4 | NU | N5        NTS source (keys fixed), same versions
//   events T                   handle_timer
//          U:<t>.<l>,<t>.<l>   usable answer to the last request sent, carrying these cookies
//                              in its encrypted fields (lengths multiples of 4); "U:" = none
//          G                   usable answer that also carries the NTPv5 upgrade marker (v4 only)
//          D | R               DENY / RSTR kiss answering the last request (authenticated for NTS)
//          O:<k>               a datagram the source must ignore:
//                              0 garbage, 1 wrong origin/cookie, 2 RATE kiss, 3 stratum 17,
//                              4 client mode, 5 NTSN kiss, 6 unknown kiss, 7 wrong key (NTS) /
//                              wrong version (plain), 8 unauthenticated usable-looking answer
//                              with cookies in the clear (NTS) / truncated (plain)
//          S:<t>.<l>           cookie put into the stash directly (as the key exchange does)
// output: per event 7 numbers
//   code tag len placeholders placeholder_len unanswered_polls nts_cookies
//   code 0 nothing, 1 plain request, 2 NTS request, 3 Reset, 4 Demobilize, 9 other
use super::super::*;
use crate::packet::{AesSivCmac256, ExtensionHeaderVersion};
use std::borrow::Cow;
use std::collections::HashMap;
use std::fmt::Write as _;

struct Ctl;
impl SourceController for Ctl {
    fn handle_measurement(&mut self, _: Measurement) {}
    fn set_usable(&mut self, _: bool) {}
    fn desired_poll_interval(&self) -> PollInterval {
        PollInterval::default()
    }
    fn observe(&self) -> crate::ObservableSourceTimedata {
        crate::ObservableSourceTimedata::default()
    }
}

fn c2s() -> AesSivCmac256 {
    AesSivCmac256::new([1u8; 32].into())
}
fn s2c() -> AesSivCmac256 {
    AesSivCmac256::new([2u8; 32].into())
}
fn wrong_key() -> AesSivCmac256 {
    AesSivCmac256::new([3u8; 32].into())
}

fn cookie_bytes(tag: u32, len: usize) -> Vec<u8> {
    let t = tag.to_le_bytes();
    (0..len).map(|i| t[i % 4]).collect()
}

fn parse_cookie(s: &str) -> (u32, usize) {
    let mut it = s.split('.');
    let t: u32 = it.next().unwrap().parse().unwrap();
    let l: usize = it.next().unwrap().parse().unwrap();
    (t, l)
}

struct Machine {
    src: NtpSource<Ctl>,
    nts: bool,
    last_req: Option<Vec<u8>>,
    // tag -> length of every cookie handed to the source (to recognise padded cookies in requests)
    known: HashMap<u32, usize>,
}

#[derive(Clone, Copy, PartialEq)]
enum Kind {
    Usable,
    Upgrade,
    Deny,
    Rstr,
    WrongOrigin,
    Rate,
    Stratum17,
    ClientMode,
    Ntsn,
    UnknownKiss,
    WrongKeyOrVersion,
    Unauthenticated,
}

fn ef(v: &mut Vec<u8>, f: ExtensionField<'_>, min: u16, ver: ExtensionHeaderVersion) {
    f.serialize(v, min, ver).unwrap();
}

impl Machine {
    fn new(cfg: &str) -> Machine {
        let mut src = NtpSource::test_ntp_source(Ctl);
        let nts = cfg.starts_with('N');
        src.protocol_version = match &cfg[1..] {
            "4" => ProtocolVersion::V4,
            "U" => ProtocolVersion::v4_upgrading_to_v5_with_default_tries(),
            "X" => ProtocolVersion::UpgradedToV5,
            _ => ProtocolVersion::V5,
        };
        if nts {
            src.nts = Some(Box::new(SourceNtsData {
                cookies: CookieStash::default(),
                c2s: Box::new(c2s()),
                s2c: Box::new(s2c()),
            }));
        }
        Machine { src, nts, last_req: None, known: HashMap::new() }
    }

    fn uid_of_request(&self, req: &[u8]) -> Option<Vec<u8>> {
        if !self.nts {
            return None;
        }
        let (p, _) = NtpPacket::deserialize(req, &c2s()).ok()?;
        for f in p.authenticated_extension_fields() {
            if let ExtensionField::UniqueIdentifier(u) = f {
                return Some(u.to_vec());
            }
        }
        None
    }

    // a datagram of the given kind for the last request (or for an imaginary all-zero request)
    fn datagram(&self, kind: Kind, cookies: &[(u32, usize)]) -> Vec<u8> {
        let zero = vec![0x23u8; 48];
        let req: &[u8] = self.last_req.as_deref().unwrap_or(&zero);
        let mut version = (req[0] >> 3) & 7;
        if version != 5 {
            version = 4;
        }
        if kind == Kind::WrongKeyOrVersion && !self.nts {
            version = if version == 5 { 4 } else { 5 };
        }
        let hv = if version == 5 { ExtensionHeaderVersion::V5 } else { ExtensionHeaderVersion::V4 };
        let mut h = vec![0u8; 48];
        let mode = if kind == Kind::ClientMode { 3 } else { 4 };
        h[0] = (version << 3) | mode;
        let kiss = matches!(kind, Kind::Deny | Kind::Rstr | Kind::Rate | Kind::Ntsn | Kind::UnknownKiss);
        h[1] = if kiss { 0 } else if kind == Kind::Stratum17 { 17 } else { 1 };
        h[2] = req[2];
        h[3] = 0xEC;
        if version == 4 {
            let code: &[u8; 4] = match kind {
                Kind::Deny => b"DENY",
                Kind::Rstr => b"RSTR",
                Kind::Rate => b"RATE",
                Kind::Ntsn => b"NTSN",
                Kind::UnknownKiss => b"QQQQ",
                _ => b"\x7f\x00\x00\x09",
            };
            h[12..16].copy_from_slice(code);
            if kind == Kind::Upgrade {
                h[16..24].copy_from_slice(&crate::packet::v5::UPGRADE_TIMESTAMP.to_bits());
            }
            h[24..32].copy_from_slice(&req[40..48]);
            if kind == Kind::WrongOrigin {
                h[24] ^= 0x55;
            }
            h[32..40].copy_from_slice(&[0xE0, 0, 0, 1, 0, 0, 0, 0]);
            h[40..48].copy_from_slice(&[0xE0, 0, 0, 1, 0, 0, 1, 0]);
        } else {
            match kind {
                // v5: DENY is poll = NEVER, RATE is a poll above our own, NTSN is the authnak flag
                Kind::Deny | Kind::Rstr => h[2] = 0x7f,
                Kind::Rate => h[2] = (req[2] as i8).saturating_add(2).min(126) as u8,
                _ => {}
            }
            h[14] = 0;
            h[15] = if kiss { 0 } else { 1 };
            if kind == Kind::Ntsn {
                h[15] |= 4;
            }
            h[16..24].copy_from_slice(&[9, 8, 7, 6, 5, 4, 3, 2]);
            h[24..32].copy_from_slice(&req[24..32]);
            if kind == Kind::WrongOrigin {
                h[24] ^= 0x55;
            }
            h[32..40].copy_from_slice(&[0xE0, 0, 0, 1, 0, 0, 0, 0]);
            h[40..48].copy_from_slice(&[0xE0, 0, 0, 1, 0, 0, 1, 0]);
        }
        let mut out = h;
        let draft = || ExtensionField::DraftIdentification(Cow::Borrowed(crate::packet::v5::DRAFT_VERSION));
        if !self.nts {
            if version == 5 {
                ef(&mut out, draft(), 4, hv);
            }
            if kind == Kind::Unauthenticated {
                out.truncate(40);
            }
            return out;
        }
        let uid = self.uid_of_request(req).unwrap_or_else(|| vec![7u8; 32]);
        if kind == Kind::Unauthenticated {
            // uid and cookies in the clear, no authenticator
            ef(&mut out, ExtensionField::UniqueIdentifier(uid.into()), 16, hv);
            if version == 5 {
                ef(&mut out, draft(), 16, hv);
            }
            for (t, l) in cookies {
                ef(&mut out, ExtensionField::NtsCookie(cookie_bytes(*t, *l).into()), 16, hv);
            }
            ef(&mut out, ExtensionField::Unknown { type_id: 0x4242, data: vec![0u8; 24].into() }, 28, hv);
            return out;
        }
        ef(&mut out, ExtensionField::UniqueIdentifier(uid.into()), 16, hv);
        if version == 5 {
            ef(&mut out, draft(), 16, hv);
        }
        let mut pt: Vec<u8> = Vec::new();
        for (t, l) in cookies {
            ef(&mut pt, ExtensionField::NtsCookie(cookie_bytes(*t, *l).into()), 0, hv);
        }
        let ptlen = pt.len();
        pt.extend_from_slice(&[0u8; 64]);
        let r = if kind == Kind::WrongKeyOrVersion {
            wrong_key().encrypt(&mut pt, ptlen, &out).unwrap()
        } else {
            s2c().encrypt(&mut pt, ptlen, &out).unwrap()
        };
        let n = r.nonce_length;
        let c = r.ciphertext_length;
        let pn = (n + 3) / 4 * 4;
        let pc = (c + 3) / 4 * 4;
        out.extend_from_slice(&0x0404u16.to_be_bytes());
        out.extend_from_slice(&((8 + pn + pc) as u16).to_be_bytes());
        out.extend_from_slice(&(n as u16).to_be_bytes());
        out.extend_from_slice(&(c as u16).to_be_bytes());
        out.extend_from_slice(&pt[..n]);
        out.extend(std::iter::repeat(0u8).take(pn - n));
        out.extend_from_slice(&pt[n..n + c]);
        out.extend(std::iter::repeat(0u8).take(pc - c));
        out
    }

    // -> (code, tag, len, placeholders, placeholder_len)
    fn classify(&mut self, actions: NtpSourceActionIterator) -> [i64; 5] {
        let mut res: Option<[i64; 5]> = None;
        let mut many = false;
        for a in actions {
            let r = match a {
                NtpSourceAction::SetTimer(_) => continue,
                NtpSourceAction::Reset => [3, 0, 0, 0, 0],
                NtpSourceAction::Demobilize => [4, 0, 0, 0, 0],
                NtpSourceAction::Send(buf) => {
                    let r = self.describe_request(&buf);
                    self.last_req = Some(buf);
                    r
                }
            };
            if res.is_some() {
                many = true;
            }
            res = Some(r);
        }
        if many {
            return [9, 0, 0, 0, 0];
        }
        res.unwrap_or([0, 0, 0, 0, 0])
    }

    fn describe_request(&self, buf: &[u8]) -> [i64; 5] {
        if !self.nts {
            return match NtpPacket::deserialize(buf, &crate::packet::NoCipher) {
                Ok((p, _)) if p.authenticated_extension_fields().count() == 0 => [1, 0, 0, 0, 0],
                _ => [9, 1, 0, 0, 0],
            };
        }
        let Ok((p, _)) = NtpPacket::deserialize(buf, &c2s()) else {
            return [9, 2, 0, 0, 0];
        };
        let mut cookies: Vec<Vec<u8>> = Vec::new();
        let mut ph: Vec<usize> = Vec::new();
        for f in p.authenticated_extension_fields() {
            match f {
                ExtensionField::NtsCookie(c) => cookies.push(c.to_vec()),
                ExtensionField::NtsCookiePlaceholder { cookie_length } => ph.push(*cookie_length as usize),
                _ => {}
            }
        }
        // nothing cookie-like may travel outside the authenticated part
        for f in p.untrusted_extension_fields() {
            if matches!(f, ExtensionField::NtsCookie(_) | ExtensionField::NtsCookiePlaceholder { .. }) {
                return [9, 3, 0, 0, 0];
            }
        }
        if cookies.len() != 1 {
            return [9, 4, cookies.len() as i64, 0, 0];
        }
        let c = &cookies[0];
        // the wire form pads short / unaligned cookies with zeros: recover (tag, len) through the table
        let mut tb = [0u8; 4];
        for i in 0..4.min(c.len()) {
            tb[i] = c[i];
        }
        let tag = u32::from_le_bytes(tb);
        let len = match self.known.get(&tag) {
            Some(l) => *l,
            None => return [9, 5, tag as i64, c.len() as i64, 0],
        };
        let want = cookie_bytes(tag, len);
        let v5 = (buf[0] >> 3) & 7 == 5;
        let padded = if v5 { len.max(12) } else { (len + 4).max(16).div_ceil(4) * 4 - 4 };
        if c.len() != padded || c[..len] != want[..] || c[len..].iter().any(|b| *b != 0) {
            return [9, 6, tag as i64, c.len() as i64, 0];
        }
        let phl: i64 = if ph.is_empty() {
            0
        } else if ph.iter().all(|l| *l == padded) {
            len as i64
        } else {
            -1
        };
        [2, tag as i64, len as i64, ph.len() as i64, phl]
    }

    fn event(&mut self, tok: &str) -> [i64; 5] {
        let (name, arg) = match tok.find(':') {
            Some(i) => (&tok[..i], &tok[i + 1..]),
            None => (tok, ""),
        };
        let t0 = NtpTimestamp::from_fixed_int(0);
        let t1 = NtpTimestamp::from_fixed_int(400);
        match name {
            "T" => {
                let a = self.src.handle_timer();
                self.classify(a)
            }
            "S" => {
                let (t, l) = parse_cookie(arg);
                self.known.insert(t, l);
                if let Some(n) = self.src.nts.as_mut() {
                    n.cookies.store(cookie_bytes(t, l));
                }
                [0, 0, 0, 0, 0]
            }
            _ => {
                let cookies: Vec<(u32, usize)> =
                    if arg.is_empty() || name != "U" { Vec::new() } else { arg.split(',').map(parse_cookie).collect() };
                for (t, l) in &cookies {
                    self.known.insert(*t, *l);
                }
                let bytes = match name {
                    "U" => self.datagram(Kind::Usable, &cookies),
                    "G" => self.datagram(Kind::Upgrade, &[]),
                    "D" => self.datagram(Kind::Deny, &[]),
                    "R" => self.datagram(Kind::Rstr, &[]),
                    _ => match arg {
                        "0" => vec![0xde, 0xad, 0xbe, 0xef, 1, 2, 3],
                        "1" => self.datagram(Kind::WrongOrigin, &[(900001, 32)]),
                        "2" => self.datagram(Kind::Rate, &[]),
                        "3" => self.datagram(Kind::Stratum17, &[(900002, 32)]),
                        "4" => self.datagram(Kind::ClientMode, &[(900003, 32)]),
                        "5" => self.datagram(Kind::Ntsn, &[]),
                        "6" => self.datagram(Kind::UnknownKiss, &[(900004, 32)]),
                        "7" => self.datagram(Kind::WrongKeyOrVersion, &[(900005, 32)]),
                        _ => self.datagram(Kind::Unauthenticated, &[(900006, 32)]),
                    },
                };
                let a = self.src.handle_incoming(&bytes, t0, t1);
                self.classify(a)
            }
        }
    }

    fn observe(&self) -> (i64, i64) {
        let o = self.src.observe(std::string::String::from("x"), ClockId(1));
        (o.unanswered_polls as i64, o.nts_cookies.map(|n| n as i64).unwrap_or(-1))
    }
}

fn run_case(tokens: &[&str]) -> std::string::String {
    let mut m = Machine::new(tokens[0]);
    let mut out = std::string::String::new();
    for tok in &tokens[1..] {
        let r = m.event(tok);
        let (u, n) = m.observe();
        write!(out, "{} {} {} {} {} {} {} ", r[0], r[1], r[2], r[3], r[4], u, n).unwrap();
    }
    out
}
