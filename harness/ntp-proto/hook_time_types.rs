// hook file for ntp-proto/src/time_types.rs: declares the per-property harness modules
#[cfg(any(verif_all, verif_c32))]
#[path = "/verif/harness/ntp-proto/c32.rs"]
mod c32;
