// hook file for ntp-proto/src/time_types.rs: declares the per-property harness modules
