// C10: event histories against the real NtpSource (s2_source.rs); lines starting with "D" go to the
// poll-desire harness in algorithm/kalman/source.rs (c10_desire.rs) -- that one has its own driver.
#[test]
fn verif_c10_driver() {
    crate::verif_hook::drive(|t| super::s2_source::run_history(t));
}
