// hook file for ntp-proto/src/nts/record.rs: declares the per-property harness modules
