// hook file for ntp-proto/src/nts/record.rs: declares the per-property harness modules
#[cfg(any(verif_all, verif_c30))]
#[path = "/verif/harness/ntp-proto/c30.rs"]
mod c30;
