// C10 (second part): the poll-desire state machine of the Kalman source filter
// (SourceState::get_desired_poll, the Initial -> Stable transition of
// update_self_using_measurement, SourceFilter::update_desired_poll).
// input:  <min> <max> <initial> <hysteresis> <low_weight> <high_weight> <step_threshold> <event>...
//   S                      feed measurements until the filter leaves its initial phase (8 samples)
//   U:<p>:<weight>:<period>  update_desired_poll with these values (ignored while in the initial phase)
// output per event: "<poll_score|-1000> <desired poll>" joined by " | "
use super::super::*;
use crate::packet::NtpLeapIndicator;

#[test]
fn verif_c10d_driver() {
    crate::verif_hook::drive(|t| {
        let min: i8 = t[0].parse().unwrap();
        let max: i8 = t[1].parse().unwrap();
        let initial: i8 = t[2].parse().unwrap();
        let limits = PollIntervalLimits { min: PollInterval::test_new(min), max: PollInterval::test_new(max) };
        let source_config = SourceConfig { poll_interval_limits: limits, initial_poll_interval: PollInterval::test_new(initial) };
        let algo = AlgorithmConfig {
            poll_interval_hysteresis: t[3].parse().unwrap(),
            poll_interval_low_weight: t[4].parse().unwrap(),
            poll_interval_high_weight: t[5].parse().unwrap(),
            poll_interval_step_threshold: t[6].parse().unwrap(),
            ..Default::default()
        };
        let mut st: SourceState<NtpDuration, AveragingBuffer> = SourceState::new(AveragingBuffer::default());
        let mut k = 0i64;
        let mut out: std::vec::Vec<std::string::String> = std::vec::Vec::new();
        for ev in &t[7..] {
            if *ev == "S" {
                let mut guard = 0;
                while matches!(st.0, SourceStateInner::Initial(_)) && guard < 20 {
                    guard += 1;
                    k += 1;
                    let m = InternalMeasurement {
                        delay: NtpDuration::from_seconds(0.001),
                        offset: NtpDuration::from_seconds(0.0001 * (k as f64)),
                        localtime: NtpTimestamp::from_fixed_int((k as u64) << 36),
                        root_delay: NtpDuration::default(),
                        root_dispersion: NtpDuration::default(),
                        leap: NtpLeapIndicator::NoWarning,
                        precision: 0,
                    };
                    st.update_self_using_measurement(&source_config, &algo, m, None);
                }
            } else {
                let f: std::vec::Vec<&str> = ev.split(':').collect();
                if let SourceStateInner::Stable(filter) = &mut st.0 {
                    filter.update_desired_poll(
                        &source_config,
                        &algo,
                        f[1].parse().unwrap(),
                        f[2].parse().unwrap(),
                        f[3].parse().unwrap(),
                    );
                }
            }
            let score = match &st.0 {
                SourceStateInner::Initial(_) => -1000,
                SourceStateInner::Stable(f) => f.poll_score as i64,
            };
            out.push(std::format!("{} {}", score, st.get_desired_poll(&limits).as_log()));
        }
        out.join(" | ")
    });
}
