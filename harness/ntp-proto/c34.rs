// C34: BloomFilter / ServerId / RemoteBloomFilter and ReferenceIdRequest::to_response.
// case tokens:
//   B <op> ...        op = a:<i,i,..>      add_id
//                          u:<i,..;i,..>   union with a filter made of these ids (BloomFilter::add; also
//                                          cross-checked against FromIterator/union)
//                          q:<i,..>        contains_id
//     output: per a/u count_ones, per q 0/1, finally checksum of the 512 bytes
//   R <chunk> <sparse server filter i.b,i.b,..|-> <ev> ...
//                     ev = q<cookie>            next_request            -> offset payload_len
//                          d<k>                 server's real answer (to_response AND the one extracted from
//                                               NtpPacket::timestamp_response) to the k-th request -> code next filled
//                          j<cookie>.<len>.<seed>  junk bytes           -> code next filled
//                          s<plen>.<off>        to_response of an arbitrary request -> len checksum | -1
//     output finally: full_filter (1 checksum | -1), checksum of the internal filter
//     code: 0 accepted, 1 NotAwaitingResponse, 2 MismatchedCookie, 3 MismatchedLength
use super::super::*;
use crate::packet::{ExtensionField, NtpPacket};
use crate::system::{NtpServerInfo, NtpSnapshot, TimeSnapshot};
use crate::time_types::{NtpDuration, NtpTimestamp, PollInterval};
use std::fmt::Write as _;

#[derive(Clone)]
struct Clk;
impl crate::NtpClock for Clk {
    type Error = std::io::Error;
    fn now(&self) -> Result<NtpTimestamp, Self::Error> {
        Ok(NtpTimestamp::from_fixed_int(1 << 40))
    }
    fn set_frequency(&self, _: f64) -> Result<NtpTimestamp, Self::Error> {
        unreachable!()
    }
    fn get_frequency(&self) -> Result<f64, Self::Error> {
        Ok(0.0)
    }
    fn step_clock(&self, _: NtpDuration) -> Result<NtpTimestamp, Self::Error> {
        unreachable!()
    }
    fn disable_ntp_algorithm(&self) -> Result<(), Self::Error> {
        unreachable!()
    }
    fn error_estimate_update(&self, _: NtpDuration, _: NtpDuration) -> Result<(), Self::Error> {
        unreachable!()
    }
    fn status_update(&self, _: crate::NtpLeapIndicator) -> Result<(), Self::Error> {
        unreachable!()
    }
}

fn checksum(b: &[u8]) -> u64 {
    let mut acc: u64 = 0;
    for (i, x) in b.iter().enumerate() {
        acc = (acc + (i as u64 + 1) * (*x as u64)) % 1_000_003;
    }
    acc
}

fn id_of(s: &str) -> Vec<U12> {
    if s.is_empty() {
        return Vec::new();
    }
    s.split(',').map(|x| U12(x.parse::<u16>().unwrap())).collect()
}

// ServerId is exactly ten indices; shorter / longer lists are handled ten at a time by the callers
fn sid(v: &[U12]) -> ServerId {
    let mut a = [U12(0); 10];
    a.copy_from_slice(v);
    ServerId(a)
}

fn bloom_case(t: &[&str]) -> std::string::String {
    let mut out = std::string::String::new();
    let mut f = BloomFilter::new();
    for tok in t {
        let (op, arg) = tok.split_at(2);
        match op {
            "a:" => {
                f.add_id(&sid(&id_of(arg)));
                write!(out, "{} ", f.count_ones()).unwrap();
            }
            "u:" => {
                let mut g = BloomFilter::new();
                for part in arg.split(';') {
                    g.add_id(&sid(&id_of(part)));
                }
                let via_iter: BloomFilter = [f, g].iter().collect();
                f.add(&g);
                if via_iter != f {
                    write!(out, "7777 ").unwrap();
                }
                write!(out, "{} ", f.count_ones()).unwrap();
            }
            _ => {
                let r = f.contains_id(&sid(&id_of(arg)));
                write!(out, "{} ", r as u8).unwrap();
            }
        }
    }
    write!(out, "{}", checksum(f.as_bytes())).unwrap();
    out
}

fn server_answer_via_packet(filter: &BloomFilter, req: ReferenceIdRequest, cookie: NtpClientCookie) -> Option<Vec<u8>> {
    // a real NTPv5 request carrying the reference-id request, answered by the real server code
    let (mut p, _) = NtpPacket::poll_message_v5(PollInterval::default());
    let _ = cookie;
    p.push_additional(ExtensionField::ReferenceIdRequest(req));
    let info = NtpServerInfo {
        time_snapshot: TimeSnapshot::default(),
        ntp_snapshot: NtpSnapshot { bloom_filter: *filter, ..Default::default() },
    };
    let resp = NtpPacket::timestamp_response(info, p, NtpTimestamp::from_fixed_int(5), &Clk);
    for f in resp.untrusted_extension_fields() {
        if let ExtensionField::ReferenceIdResponse(r) = f {
            return Some(r.bytes().to_vec());
        }
    }
    None
}

fn remote_case(t: &[&str]) -> std::string::String {
    let mut out = std::string::String::new();
    let cs: u16 = t[0].parse().unwrap();
    let mut server = BloomFilter::new();
    if t[1] != "-" {
        for e in t[1].split(',') {
            let mut it = e.split('.');
            let i: usize = it.next().unwrap().parse().unwrap();
            let b: u8 = it.next().unwrap().parse().unwrap();
            server.0[i] = b;
        }
    }
    let Some(mut bf) = RemoteBloomFilter::new(cs) else {
        return "-1".into();
    };
    let mut reqs: Vec<(ReferenceIdRequest, NtpClientCookie)> = Vec::new();
    let deliver = |bf: &mut RemoteBloomFilter, c: NtpClientCookie, bytes: &[u8], out: &mut std::string::String| {
        let Some(resp) = ReferenceIdResponse::new(bytes) else {
            write!(out, "-96 ").unwrap();
            return;
        };
        let code = match bf.handle_response(c, &resp) {
            Ok(()) => 0,
            Err(ResponseHandlingError::NotAwaitingResponse) => 1,
            Err(ResponseHandlingError::MismatchedCookie) => 2,
            Err(ResponseHandlingError::MismatchedLength) => 3,
        };
        write!(out, "{} {} {} ", code, bf.next_to_request, bf.is_filled as u8).unwrap();
    };
    for tok in &t[2..] {
        let (op, arg) = tok.split_at(1);
        match op {
            "q" => {
                let c = NtpClientCookie(arg.parse::<u64>().unwrap().to_be_bytes());
                let r = bf.next_request(c);
                write!(out, "{} {} ", r.offset(), r.payload_len()).unwrap();
                reqs.push((r, c));
            }
            "d" => {
                let k: usize = arg.parse().unwrap();
                let Some((r, c)) = reqs.get(k).copied() else {
                    write!(out, "-97 ").unwrap();
                    continue;
                };
                let Some(resp) = r.to_response(&server) else {
                    write!(out, "-98 ").unwrap();
                    continue;
                };
                let bytes = resp.bytes().to_vec();
                if server_answer_via_packet(&server, r, c) != Some(bytes.clone()) {
                    write!(out, "8888 ").unwrap();
                }
                deliver(&mut bf, c, &bytes, &mut out);
            }
            "j" => {
                let mut it = arg.split('.');
                let c = NtpClientCookie(it.next().unwrap().parse::<u64>().unwrap().to_be_bytes());
                let len: usize = it.next().unwrap().parse().unwrap();
                let seed: u64 = it.next().unwrap().parse().unwrap();
                let bytes: Vec<u8> = (0..len).map(|i| ((seed + 7 * i as u64) % 256) as u8).collect();
                deliver(&mut bf, c, &bytes, &mut out);
            }
            _ => {
                let mut it = arg.split('.');
                let plen: u16 = it.next().unwrap().parse().unwrap();
                let off: u16 = it.next().unwrap().parse().unwrap();
                // ReferenceIdRequest::new refuses what the decoder lets through: build through decode
                // when new says no (payload_len = message length, offset from the first two bytes)
                let req = match ReferenceIdRequest::new(plen, off) {
                    Some(r) => Some((r, true)),
                    None if plen >= 2 => {
                        let mut msg = vec![0u8; plen as usize];
                        msg[..2].copy_from_slice(&off.to_be_bytes());
                        ReferenceIdRequest::decode(&msg).ok().map(|r| (r, false))
                    }
                    None => None,
                };
                match req {
                    None => write!(out, "-95 ").unwrap(),
                    Some((r, well_formed)) => {
                        let direct = r.to_response(&server).map(|x| x.bytes().to_vec());
                        if well_formed {
                            let via = server_answer_via_packet(&server, r, NtpClientCookie([0; 8]));
                            if via != direct {
                                write!(out, "8888 ").unwrap();
                            }
                        }
                        match direct {
                            Some(b) => write!(out, "{} {} ", b.len(), checksum(&b)).unwrap(),
                            None => write!(out, "-1 ").unwrap(),
                        }
                    }
                }
            }
        }
    }
    match bf.full_filter() {
        Some(g) => write!(out, "1 {} ", checksum(g.as_bytes())).unwrap(),
        None => write!(out, "-1 ").unwrap(),
    }
    write!(out, "{}", checksum(&bf.filter.0)).unwrap();
    out
}

#[test]
fn verif_c34_driver() {
    crate::verif_hook::drive(|t| match t[0] {
        "B" => bloom_case(&t[1..]),
        _ => remote_case(&t[1..]),
    });
}
