// hook file for ntp-proto/src/packet/mac.rs: declares the per-property harness modules
