// hook file for ntp-proto/src/system.rs: declares the per-property harness modules
