// hook file for ntp-proto/src/system.rs: declares the per-property harness modules
#[cfg(any(verif_all, verif_c33))]
#[path = "/verif/harness/ntp-proto/c33.rs"]
mod c33;
