// Shared helpers of the packet codec harnesses (C23, C24, C25): canonical flat
// integer encoding of NtpPacket / decode results (the same encoding as
// coq/Model/Packet.v enc_outcome / enc_ser), a table-driven test cipher and a
// recording wrapper around the real ciphers.
use super::super::*;
use crate::packet::extension_fields::ExtensionField as EF;
use std::fmt::Write as _;
use std::sync::{Arc, Mutex};
use crate::keyset::{DecodedServerCookie, KeySetProvider};
use crate::nts::AeadAlgorithm;
use crate::packet::extension_fields::ExtensionFieldData;

pub(super) fn hex(b: &[u8]) -> String {
    crate::verif_hook::hex(b)
}
pub(super) fn unhex(s: &str) -> Vec<u8> {
    crate::verif_hook::unhex(s)
}

fn dur_raw(d: NtpDuration) -> i64 {
    // NtpDuration's integer is private to time_types: recover it by comparison
    let (mut lo, mut hi) = (i64::MIN as i128, i64::MAX as i128);
    while lo < hi {
        let mid = (lo + hi).div_euclid(2);
        if NtpDuration::from_fixed_int(mid as i64) < d {
            lo = mid + 1;
        } else {
            hi = mid;
        }
    }
    lo as i64
}

fn push(out: &mut String, v: i128) {
    write!(out, "{} ", v).unwrap();
}
fn push_bytes(out: &mut String, b: &[u8]) {
    push(out, b.len() as i128);
    for x in b {
        push(out, *x as i128);
    }
}
fn be(b: &[u8]) -> i128 {
    b.iter().fold(0i128, |a, x| a * 256 + *x as i128)
}

fn leap_code(l: NtpLeapIndicator) -> i128 {
    match l {
        NtpLeapIndicator::NoWarning => 0,
        NtpLeapIndicator::Leap61 => 1,
        NtpLeapIndicator::Leap59 => 2,
        NtpLeapIndicator::Unknown => 3,
        NtpLeapIndicator::Unsynchronized => 4,
    }
}

fn push_ef(out: &mut String, f: &EF<'_>) {
    match f {
        EF::UniqueIdentifier(b) => {
            push(out, 1);
            push_bytes(out, b)
        }
        EF::NtsCookie(b) => {
            push(out, 2);
            push_bytes(out, b)
        }
        EF::NtsCookiePlaceholder { cookie_length } => {
            push(out, 3);
            push(out, *cookie_length as i128)
        }
        EF::InvalidNtsEncryptedField => push(out, 4),
        EF::DraftIdentification(s) => {
            push(out, 5);
            push_bytes(out, s.as_bytes())
        }
        EF::Padding(n) => {
            push(out, 6);
            push(out, *n as i128)
        }
        EF::ReferenceIdRequest(r) => {
            push(out, 7);
            push(out, r.payload_len() as i128);
            push(out, r.offset() as i128)
        }
        EF::ReferenceIdResponse(r) => {
            push(out, 8);
            push_bytes(out, r.bytes())
        }
        EF::Unknown { type_id, data } => {
            push(out, 9);
            push(out, *type_id as i128);
            push_bytes(out, data)
        }
    }
}

fn push_efs(out: &mut String, fs: &[EF<'_>]) {
    push(out, fs.len() as i128);
    for f in fs {
        push_ef(out, f);
    }
}

pub(super) fn push_packet(out: &mut String, p: &NtpPacket<'_>) {
    match p.header {
        NtpHeader::V3(h) | NtpHeader::V4(h) => {
            push(out, if matches!(p.header, NtpHeader::V3(_)) { 3 } else { 4 });
            push(out, leap_code(h.leap));
            push(out, h.mode.to_bits() as i128);
            push(out, h.stratum as i128);
            push(out, h.poll.as_byte() as i128);
            push(out, h.precision as u8 as i128);
            push(out, dur_raw(h.root_delay) as i128);
            push(out, dur_raw(h.root_dispersion) as i128);
            push(out, be(&h.reference_id.to_bytes()));
            push(out, be(&h.reference_timestamp.to_bits()));
            push(out, be(&h.origin_timestamp.to_bits()));
            push(out, be(&h.receive_timestamp.to_bits()));
            push(out, be(&h.transmit_timestamp.to_bits()));
        }
        NtpHeader::V5(h) => {
            push(out, 5);
            push(out, leap_code(h.leap));
            push(out, h.mode as u8 as i128);
            push(out, h.stratum as i128);
            push(out, h.poll.as_byte() as i128);
            push(out, h.precision as u8 as i128);
            push(out, h.timescale as u8 as i128);
            push(out, h.era.0 as i128);
            push(
                out,
                (h.flags.synchronized as i128) + 2 * (h.flags.interleaved_mode as i128) + 4 * (h.flags.authnak as i128),
            );
            push(out, dur_raw(h.root_delay) as i128);
            push(out, dur_raw(h.root_dispersion) as i128);
            push(out, be(&h.server_cookie.0));
            push(out, be(&h.client_cookie.0));
            push(out, be(&h.receive_timestamp.to_bits()));
            push(out, be(&h.transmit_timestamp.to_bits()));
        }
    }
    push_efs(out, &p.efdata.authenticated);
    push_efs(out, &p.efdata.encrypted);
    push_efs(out, &p.efdata.untrusted);
    match &p.mac {
        None => push(out, 0),
        Some(m) => {
            push(out, 1);
            let mut b = Vec::new();
            m.serialize(&mut b).unwrap();
            push(out, be(&b[..4]));
            push_bytes(out, &b[4..]);
        }
    }
}

fn err_code<T>(e: &error::ParsingError<T>) -> i128 {
    use error::ParsingError as P;
    match e {
        P::InvalidVersion(_) => 1,
        P::IncorrectLength => 2,
        P::MalformedNtsExtensionFields => 3,
        P::MalformedNonce => 4,
        P::MalformedCookiePlaceholder => 5,
        P::DecryptError(_) => 6,
        P::V5(v5::V5Error::InvalidDraftIdentification) => 7,
        P::V5(v5::V5Error::MalformedTimescale) => 8,
        P::V5(v5::V5Error::MalformedMode) => 9,
        P::V5(v5::V5Error::InvalidFlags) => 10,
    }
}

pub(super) type Decoded<'a> = Result<(NtpPacket<'a>, Option<crate::keyset::DecodedServerCookie>), PacketParsingError<'a>>;

pub(super) fn push_outcome(out: &mut String, r: &Decoded<'_>) {
    match r {
        Ok((p, c)) => {
            push(out, 0);
            push_packet(out, p);
            match c {
                None => push(out, 0),
                Some(c) => {
                    push(out, 1);
                    push(out, u16::from(c.algorithm) as i128);
                    push_bytes(out, c.s2c.key_bytes());
                    push_bytes(out, c.c2s.key_bytes());
                }
            }
        }
        Err(error::ParsingError::DecryptError(p)) => {
            push(out, 1);
            push_packet(out, p);
        }
        Err(e) => {
            push(out, 2);
            push(out, err_code(e));
        }
    }
}

/// encode into a cursor over `cap` bytes; output encoding = enc_ser
pub(super) fn serialize_capped(
    p: &NtpPacket<'_>,
    cipher: &(impl CipherProvider + ?Sized),
    cap: usize,
    desired: Option<usize>,
) -> Result<Vec<u8>, ()> {
    let mut buf = vec![0u8; cap];
    let mut cur = std::io::Cursor::new(buf.as_mut_slice());
    match p.serialize(&mut cur, cipher, desired) {
        Ok(()) => {
            let n = cur.position() as usize;
            Ok(buf[..n].to_vec())
        }
        Err(_) => Err(()),
    }
}

pub(super) fn push_ser(out: &mut String, r: &Result<Vec<u8>, ()>) {
    match r {
        Ok(b) => {
            push(out, 0);
            push_bytes(out, b);
        }
        Err(()) => {
            push(out, 2);
            push(out, 20);
        }
    }
}

// ---------------------------------------------------------------------------
// ciphers
// ---------------------------------------------------------------------------

/// one entry: (nonce, aad, ciphertext) -> plaintext
pub(super) type Entry = (Vec<u8>, Vec<u8>, Vec<u8>, Vec<u8>);

/// decrypt = lookup in a table chosen by the driver (anything else fails): an arbitrary oracle
pub(super) struct TableCipher {
    pub key: Vec<u8>,
    pub table: Vec<Entry>,
}
impl zeroize::ZeroizeOnDrop for TableCipher {}
impl Cipher for TableCipher {
    fn encrypt(&self, _buffer: &mut [u8], _plaintext_length: usize, _aad: &[u8]) -> std::io::Result<EncryptResult> {
        Err(std::io::ErrorKind::Other.into())
    }
    fn decrypt(&self, nonce: &[u8], ciphertext: &[u8], aad: &[u8]) -> Result<Vec<u8>, DecryptError> {
        for (n, a, c, p) in &self.table {
            if n == nonce && a == aad && c == ciphertext {
                return Ok(p.clone());
            }
        }
        Err(DecryptError)
    }
    fn key_bytes(&self) -> &[u8] {
        &self.key
    }
}

/// a real cipher that records every encryption and decryption it performs:
/// (nonce, aad, ciphertext, Some(plaintext) | None)
pub(super) struct Recording {
    pub inner: Box<dyn Cipher>,
    pub log: Arc<Mutex<Vec<(Vec<u8>, Vec<u8>, Vec<u8>, Option<Vec<u8>>)>>>,
}
impl zeroize::ZeroizeOnDrop for Recording {}
impl Cipher for Recording {
    fn encrypt(&self, buffer: &mut [u8], plaintext_length: usize, aad: &[u8]) -> std::io::Result<EncryptResult> {
        let pt = buffer.get(..plaintext_length).map(|x| x.to_vec());
        let r = self.inner.encrypt(buffer, plaintext_length, aad)?;
        let nonce = buffer[..r.nonce_length].to_vec();
        let ct = buffer[r.nonce_length..r.nonce_length + r.ciphertext_length].to_vec();
        self.log.lock().unwrap().push((nonce, aad.to_vec(), ct, pt));
        Ok(r)
    }
    fn decrypt(&self, nonce: &[u8], ciphertext: &[u8], aad: &[u8]) -> Result<Vec<u8>, DecryptError> {
        let r = self.inner.decrypt(nonce, ciphertext, aad);
        self.log.lock().unwrap().push((
            nonce.to_vec(),
            aad.to_vec(),
            ciphertext.to_vec(),
            r.as_ref().ok().cloned(),
        ));
        r
    }
    fn key_bytes(&self) -> &[u8] {
        self.inner.key_bytes()
    }
}

pub(super) fn real_cipher(key: &[u8]) -> Box<dyn Cipher> {
    if key.len() == 32 {
        Box::new(AesSivCmac256::try_from(key).unwrap())
    } else {
        Box::new(AesSivCmac512::try_from(key.iter()).unwrap())
    }
}

/// table entries as tokens: "<key> <nonce> <aad> <ct> <pt>" in hex ("-" = empty)
pub(super) fn push_table_entry(out: &mut String, key: &[u8], n: &[u8], a: &[u8], c: &[u8], p: &[u8]) {
    write!(out, "T {} {} {} {} {} ", hex(key), hex(n), hex(a), hex(c), hex(p)).unwrap();
}

// ---------------------------------------------------------------------------
// decoding operations shared by the C23 and C25 drivers
// ---------------------------------------------------------------------------

pub(super) fn load_keyset(id_offset: u32, primary: u32, keys: &[Vec<u8>]) -> std::sync::Arc<crate::keyset::KeySet> {
    let mut f = Vec::new();
    f.extend_from_slice(&0u64.to_be_bytes());
    f.extend_from_slice(&id_offset.to_be_bytes());
    f.extend_from_slice(&primary.to_be_bytes());
    f.extend_from_slice(&(keys.len() as u32).to_be_bytes());
    for k in keys {
        assert_eq!(k.len(), 64);
        f.extend_from_slice(k);
    }
    let (prov, _) = KeySetProvider::load(&mut f.as_slice(), 8).unwrap();
    prov.get()
}

pub(super) fn material(t: &[&str]) -> String {
    let id_offset: u32 = t[0].parse().unwrap();
    let primary: u32 = t[1].parse().unwrap();
    let n: usize = t[2].parse().unwrap();
    let keys: Vec<Vec<u8>> = (0..n).map(|i| unhex(t[3 + i])).collect();
    let r = &t[3 + n..];
    let alg: u16 = r[0].parse().unwrap();
    let s2c = unhex(r[1]);
    let c2s = unhex(r[2]);
    let ver: u8 = r[3].parse().unwrap();
    let ncookies: u8 = r[4].parse().unwrap();
    let ks = load_keyset(id_offset, primary, &keys);
    let dsc = DecodedServerCookie {
        algorithm: AeadAlgorithm::from(alg),
        s2c: real_cipher(&s2c),
        c2s: real_cipher(&c2s),
    };
    let cookie = ks.encode_cookie(&dsc);
    let mut out = String::new();
    write!(out, "cookie {} ", hex(&cookie)).unwrap();
    // the genuine cookie tuple (layout of encode_cookie: id 4, length 2, nonce 16, ciphertext)
    let mut pt = Vec::new();
    pt.extend_from_slice(&alg.to_be_bytes());
    pt.extend_from_slice(&s2c);
    pt.extend_from_slice(&c2s);
    push_table_entry(&mut out, &keys[primary as usize], &cookie[6..22], &[], &cookie[22..], &pt);
    // request under c2s
    let (req, _) = if ver == 5 {
        NtpPacket::nts_poll_message_v5(&cookie, ncookies, PollInterval::from_byte(6))
    } else {
        NtpPacket::nts_poll_message(&cookie, ncookies, PollInterval::from_byte(6))
    };
    let log = Arc::new(Mutex::new(Vec::new()));
    let rec = Recording { inner: real_cipher(&c2s), log: log.clone() };
    let b = serialize_capped(&req, &rec, 4096, None).unwrap();
    write!(out, "request {} ", hex(&b)).unwrap();
    for (nn, a, c, p) in log.lock().unwrap().iter() {
        push_table_entry(&mut out, &c2s, nn, a, c, p.as_ref().unwrap());
    }
    // response under s2c: uid authenticated, fresh cookies encrypted
    let uid = req
        .efdata
        .authenticated
        .iter()
        .find(|f| matches!(f, ExtensionField::UniqueIdentifier(_)))
        .cloned()
        .unwrap();
    let mut authenticated = vec![uid];
    if ver == 5 {
        authenticated.push(ExtensionField::DraftIdentification(std::borrow::Cow::Borrowed(v5::DRAFT_VERSION)));
    }
    let mut header = req.header;
    match &mut header {
        NtpHeader::V3(h) | NtpHeader::V4(h) => h.mode = NtpAssociationMode::Server,
        NtpHeader::V5(h) => h.mode = v5::NtpMode::Response,
    }
    let resp = NtpPacket {
        header,
        efdata: ExtensionFieldData {
            authenticated,
            encrypted: (0..ncookies).map(|_| ExtensionField::NtsCookie(ks.encode_cookie(&dsc).into())).collect(),
            untrusted: vec![],
        },
        mac: None,
    };
    let log = Arc::new(Mutex::new(Vec::new()));
    let rec = Recording { inner: real_cipher(&s2c), log: log.clone() };
    let b = serialize_capped(&resp, &rec, 4096, None).unwrap();
    write!(out, "response {} ", hex(&b)).unwrap();
    for (nn, a, c, p) in log.lock().unwrap().iter() {
        push_table_entry(&mut out, &s2c, nn, a, c, p.as_ref().unwrap());
    }
    out
}


/// N / C / R / S / MK operations (see c23.rs)
pub(super) fn decode_op(t: &[&str]) -> String {
    let mut out = String::new();
    match t[0] {
        "N" => {
            let data = unhex(t[1]);
            let r = NtpPacket::deserialize(&data, &NoCipher);
            push_outcome(&mut out, &r);
        }
        "C" => {
            let data = unhex(t[1]);
            let k: usize = t[2].parse().unwrap();
            let table = (0..k)
                .map(|i| (unhex(t[3 + 4 * i]), unhex(t[4 + 4 * i]), unhex(t[5 + 4 * i]), unhex(t[6 + 4 * i])))
                .collect();
            let cipher = TableCipher { key: vec![1], table };
            let r = NtpPacket::deserialize(&data, &cipher);
            push_outcome(&mut out, &r);
        }
        "R" => {
            let key = unhex(t[1]);
            let data = unhex(t[2]);
            let cipher = real_cipher(&key);
            let r = NtpPacket::deserialize(&data, &*cipher);
            push_outcome(&mut out, &r);
        }
        "S" => {
            let id_offset: u32 = t[1].parse().unwrap();
            let n: usize = t[2].parse().unwrap();
            let keys: Vec<Vec<u8>> = (0..n).map(|i| unhex(t[3 + i])).collect();
            let data = unhex(t[3 + n]);
            let ks = load_keyset(id_offset, 0, &keys);
            let r = NtpPacket::deserialize(&data, ks.as_ref());
            push_outcome(&mut out, &r);
        }
        "MK" => out = material(&t[1..]),
        _ => out.push_str("BADOP"),
    }
    out
}
