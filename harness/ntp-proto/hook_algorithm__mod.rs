// hook file for ntp-proto/src/algorithm/mod.rs: declares the per-property harness modules
#[cfg(any(verif_all, verif_c05))]
#[path = "/verif/harness/ntp-proto/c05.rs"]
mod c05;
