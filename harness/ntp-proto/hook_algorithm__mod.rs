// hook file for ntp-proto/src/algorithm/mod.rs: declares the per-property harness modules
