// C26: drive KeySetProvider::{new, load, rotate} and KeySet::{encode_cookie, decode_cookie}.
// input tokens:  <history> <new | hex of a key file> <op> <op> ...
//   R                      rotate
//   I:<alg>:<s2c>:<c2s>    issue a cookie (hex keys of 32 or 64 bytes), remember it in the next slot
//   D:<slot>               decode the cookie of a slot
//   F:<slot>:<pos>:<val>   decode it with byte <pos> set to <val>
//   T:<slot>:<n>           decode its first n bytes
//   P:<slot>:<hex>         decode it with trailing bytes
//   W:<hex>                decode arbitrary bytes
// output tokens: the initial state, then one token per op
//   S:<id_offset>:<primary>:<key,key,...>                      state (initially and after R)
//   C:<cookie>:<key>:<nonce>:<ct>:<pt>                         issued cookie, and its ciphertext part
//        decrypted by a fresh cipher built from the bytes of keys[primary] (FAIL if that fails)
//   ok:<alg>:<s2c>:<c2s> | err                                 decode result
use super::super::*;
use crate::verif_hook::{hex, unhex};

fn state(p: &KeySetProvider) -> String {
    let ks = p.get();
    let keys: Vec<String> = ks.keys.iter().map(|k| hex(k.key_bytes())).collect();
    format!("S:{}:{}:{}", ks.id_offset, ks.primary, if keys.is_empty() { "-".to_string() } else { keys.join(",") })
}

fn cipher(bytes: &[u8]) -> Box<dyn Cipher> {
    if bytes.len() == 32 {
        Box::new(AesSivCmac256::try_from(bytes).unwrap())
    } else {
        Box::new(AesSivCmac512::try_from(bytes.iter()).unwrap())
    }
}

fn dec(ks: &KeySet, b: &[u8]) -> String {
    match ks.decode_cookie(b) {
        Ok(c) => format!("ok:{}:{}:{}", u16::from(c.algorithm), hex(c.s2c.key_bytes()), hex(c.c2s.key_bytes())),
        Err(DecryptError) => "err".to_string(),
    }
}

#[test]
fn verif_c26_driver() {
    crate::verif_hook::drive(|t| {
        let history: usize = t[0].parse().unwrap();
        let mut provider = if t[1] == "new" {
            KeySetProvider::new(history)
        } else {
            let file = unhex(t[1]);
            match KeySetProvider::load(&mut &file[..], history) {
                Ok((p, _)) => p,
                Err(_) => return "LOADFAIL".to_string(),
            }
        };
        let mut out = vec![state(&provider)];
        let mut slots: Vec<Vec<u8>> = vec![];
        for op in &t[2..] {
            let f: Vec<&str> = op.split(':').collect();
            let ks = provider.get();
            match f[0] {
                "R" => {
                    provider.rotate();
                    out.push(state(&provider));
                }
                "I" => {
                    let cookie = DecodedServerCookie {
                        algorithm: AeadAlgorithm::from(f[1].parse::<u16>().unwrap()),
                        s2c: cipher(&unhex(f[2])),
                        c2s: cipher(&unhex(f[3])),
                    };
                    let r = std::panic::catch_unwind(std::panic::AssertUnwindSafe(|| ks.encode_cookie(&cookie)));
                    match r {
                        Err(_) => {
                            slots.push(vec![]);
                            out.push("C:PANIC".to_string());
                        }
                        Ok(b) => {
                            // independent check of the ciphertext part with the bytes of the primary key
                            let key = ks.keys.get(ks.primary as usize).map(|k| k.key_bytes().to_vec()).unwrap_or_default();
                            let (nonce, ct, pt) = if b.len() >= 22 && key.len() == 64 {
                                let fresh = AesSivCmac512::try_from(key.iter()).unwrap();
                                let pt = match fresh.decrypt(&b[6..22], &b[22..], &[]) {
                                    Ok(p) => hex(&p),
                                    Err(_) => "FAIL".to_string(),
                                };
                                (hex(&b[6..22]), hex(&b[22..]), pt)
                            } else {
                                ("-".to_string(), "-".to_string(), "FAIL".to_string())
                            };
                            out.push(format!("C:{}:{}:{}:{}:{}", hex(&b), hex(&key), nonce, ct, pt));
                            slots.push(b);
                        }
                    }
                }
                "D" => out.push(dec(&ks, &slots[f[1].parse::<usize>().unwrap()])),
                "F" => {
                    let mut b = slots[f[1].parse::<usize>().unwrap()].clone();
                    let pos: usize = f[2].parse().unwrap();
                    if pos < b.len() {
                        b[pos] = f[3].parse().unwrap();
                    }
                    out.push(dec(&ks, &b));
                }
                "T" => {
                    let b = &slots[f[1].parse::<usize>().unwrap()];
                    let n: usize = f[2].parse().unwrap();
                    out.push(dec(&ks, &b[..n.min(b.len())]));
                }
                "P" => {
                    let mut b = slots[f[1].parse::<usize>().unwrap()].clone();
                    b.extend(unhex(f[2]));
                    out.push(dec(&ks, &b));
                }
                "W" => out.push(dec(&ks, &unhex(f[1]))),
                _ => out.push("?".to_string()),
            }
        }
        out.join(" ")
    });
}
