// hook file for ntp-proto/src/nts/mod.rs: declares the per-property harness modules
#[cfg(any(verif_all, verif_c28))]
#[path = "/verif/harness/ntp-proto/c28.rs"]
mod c28;
#[cfg(any(verif_all, verif_c29))]
#[path = "/verif/harness/ntp-proto/c29.rs"]
mod c29;
