// hook file for ntp-proto/src/nts/mod.rs: declares the per-property harness modules
