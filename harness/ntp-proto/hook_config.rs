// hook file for ntp-proto/src/config.rs: declares the per-property harness modules
#[cfg(any(verif_all, verif_c39))]
#[path = "/verif/harness/ntp-proto/c39.rs"]
mod c39;
