// hook file for ntp-proto/src/config.rs: declares the per-property harness modules
