// hook file for ntp-proto/src/nts/messages.rs: declares the per-property harness modules
