// C24: decode (no keys) -> encode -> decode -> encode.
// input:  <cap> <hex>      cap = size of the buffer the encoder writes into
// output: enc_outcome(decode b) [enc_ser(encode p) [enc_outcome(decode b1) [enc_ser(encode p1)]]]
//         (each later stage only when the earlier one produced a packet / bytes); a panic inside
//         an encode stage is reported in place as "3 0" so that the stage is visible.
use super::super::*;
use super::p1_common::*;

fn encode_stage(out: &mut String, p: &NtpPacket<'_>, cap: usize) -> Option<Vec<u8>> {
    let r = std::panic::catch_unwind(std::panic::AssertUnwindSafe(|| serialize_capped(p, &NoCipher, cap, None)));
    match r {
        Ok(r) => {
            push_ser(out, &r);
            r.ok()
        }
        Err(_) => {
            out.push_str("3 0 ");
            None
        }
    }
}

#[test]
fn verif_c24_driver() {
    crate::verif_hook::drive(|t| {
        let cap: usize = t[0].parse().unwrap();
        let data = unhex(t[1]);
        let mut out = String::new();
        let r = NtpPacket::deserialize(&data, &NoCipher);
        push_outcome(&mut out, &r);
        if let Ok((p, _)) = &r {
            if let Some(b1) = encode_stage(&mut out, p, cap) {
                let r1 = NtpPacket::deserialize(&b1, &NoCipher);
                push_outcome(&mut out, &r1);
                if let Ok((p1, _)) = &r1 {
                    encode_stage(&mut out, p1, cap);
                }
            }
        }
        out
    });
}
