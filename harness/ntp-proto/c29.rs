// C29: pool key-exchange requests require a configured token.  The cases (server cases of
// ntske_common.rs) run the real KeyExchangeServer::handle_connection and handle_longterm over
// an in-memory TLS session against a scripted client.
include!("/verif/harness/ntp-proto/ntske_common.rs");

#[test]
fn verif_c29_driver() {
    drive_ntske();
}
