// C03: drive select::select on candidate lists.
// input tokens (all f64 as 16-digit hex bit patterns):
//   <min_agreeing> <max_uncertainty> <range_statistical_weight> <range_delay_weight> <n>
//   then n times: <id> <periodic 0|1> <leap code 0..4> <offset> <variance> <delay>
// output tokens:
//   <key(max_uncertainty)> then n times <key(radius)> <key(lo)> <key(hi)>   (f64::total_cmp keys, decimal i64)
//   then  S <k> <id>*k   (the selection, in order)   or   P   (select panicked)
// a line starting with L is a controller-level case (message loop + timer): the rest of the line is a
// case of harness/ntp-proto/c37.rs and is run by it
use super::super::*;
use crate::algorithm::kalman::{
    matrix::{Matrix, Vector},
    source::KalmanState,
};
use crate::time_types::{NtpDuration, NtpTimestamp};
use crate::{ClockId, packet::NtpLeapIndicator};
use std::fmt::Write;

fn f(tok: &str) -> f64 {
    f64::from_bits(u64::from_str_radix(tok, 16).unwrap())
}

// the key f64::total_cmp compares by
fn key(x: f64) -> i64 {
    let b = x.to_bits() as i64;
    b ^ ((((b >> 63) as u64) >> 1) as i64)
}

fn leap_of(code: &str) -> NtpLeapIndicator {
    match code {
        "0" => NtpLeapIndicator::NoWarning,
        "1" => NtpLeapIndicator::Leap61,
        "2" => NtpLeapIndicator::Leap59,
        "3" => NtpLeapIndicator::Unknown,
        _ => NtpLeapIndicator::Unsynchronized,
    }
}

#[test]
fn verif_c03_driver() {
    crate::verif_hook::drive(|t| {
        if t[0] == "L" {
            return crate::algorithm::kalman::verif_hook::c37::run_case(&t[1..]);
        }
        let sync = SynchronizationConfig {
            minimum_agreeing_sources: t[0].parse().unwrap(),
            ..Default::default()
        };
        let algo = AlgorithmConfig {
            maximum_source_uncertainty: f(t[1]),
            range_statistical_weight: f(t[2]),
            range_delay_weight: f(t[3]),
            ..Default::default()
        };
        let n: usize = t[4].parse().unwrap();
        let mut cands = Vec::new();
        for i in 0..n {
            let c = &t[5 + 6 * i..11 + 6 * i];
            cands.push(SourceSnapshot {
                index: ClockId(c[0].parse().unwrap()),
                state: KalmanState {
                    state: Vector::new_vector([f(c[3]), 0.0]),
                    uncertainty: Matrix::new([[f(c[4]), 0.0], [0.0, 1e-12]]),
                    time: NtpTimestamp::from_fixed_int(0),
                },
                wander: 0.0,
                delay: f(c[5]),
                period: if c[1] == "1" { Some(1.0) } else { None },
                source_uncertainty: NtpDuration::from_seconds(0.0),
                source_delay: NtpDuration::from_seconds(0.0),
                leap_indicator: leap_of(c[2]),
                last_update: NtpTimestamp::from_fixed_int(0),
            });
        }
        let mut out = String::new();
        write!(out, "{}", key(algo.maximum_source_uncertainty)).unwrap();
        for s in &cands {
            // the expressions of select.rs (tied by the ConstSelect text census)
            let radius = s.offset_uncertainty() * algo.range_statistical_weight
                + s.delay * algo.range_delay_weight;
            write!(out, " {} {} {}", key(radius), key(s.offset() - radius), key(s.offset() + radius)).unwrap();
        }
        let r = std::panic::catch_unwind(std::panic::AssertUnwindSafe(|| select(&sync, &algo, &cands)));
        match r {
            Ok(sel) => {
                write!(out, " S {}", sel.len()).unwrap();
                for s in &sel {
                    write!(out, " {}", s.index.0).unwrap();
                }
            }
            Err(_) => out.push_str(" P"),
        }
        out
    });
}
