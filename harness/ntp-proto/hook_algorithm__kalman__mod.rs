// hook file for ntp-proto/src/algorithm/kalman/mod.rs: declares the per-property harness modules
