// hook file for ntp-proto/src/algorithm/kalman/mod.rs: declares the per-property harness modules
#[cfg(any(verif_all, verif_c01))]
#[path = "/verif/harness/ntp-proto/c01.rs"]
mod c01;
#[cfg(any(verif_all, verif_c02))]
#[path = "/verif/harness/ntp-proto/c02.rs"]
mod c02;
// (also compiled for C03, whose driver runs its controller-level cases through c37::run_case)
#[cfg(any(verif_all, verif_c37, verif_c03))]
#[path = "/verif/harness/ntp-proto/c37.rs"]
pub(crate) mod c37;
