// hook file for ntp-proto/src/algorithm/kalman/mod.rs: declares the per-property harness modules
#[cfg(any(verif_all, verif_c01))]
#[path = "/verif/harness/ntp-proto/c01.rs"]
mod c01;
#[cfg(any(verif_all, verif_c02))]
#[path = "/verif/harness/ntp-proto/c02.rs"]
mod c02;
#[cfg(any(verif_all, verif_c37))]
#[path = "/verif/harness/ntp-proto/c37.rs"]
mod c37;
