// Shared harness code of builder P2b (C16, C17, C18, C19): included with include! by
// c16.rs .. c19.rs, each of which is a child module of packet/mod.rs's hook module.
//
// One case = one request datagram (built here from a spec, because NTS requests need the
// real cipher) driven through NtpPacket::deserialize, Server::handle with a request-sized
// and with a 1024-byte buffer, or through one of the response builders + serialize.
//
// input tokens:
//   0 op        H = Server::handle;  Bk = response builder k + serialize
//               (k: r rate_limit, R nts_rate_limit, d deny, D nts_deny, n nts_nak, t timestamp, T nts_timestamp)
//   1 policy    T = client passes both lists, D = client is on the deny list (action deny)
//   2 require   n | i | d      (require_nts = None | Ignore | Deny)
//   3 versions  bit mask 1=v3 2=v4 4=v5
//   4 stratum   5 leap(0..4)   6 refid(u32)   7 precision exponent (i8)
//   8 root delay (fixed int, i64)   9 root variance base (f64)
//   10 recv ts (u64 hex)   11 clock now (u64 hex)
//   12 bloom: number of server ids in the filter . seed
//   13 keyset: id_offset.primary.nkeys
//   14 message spec (see build_message)
//   15 (optional) a third buffer length -> r3=
// output tokens:
//   msg=<hex>  st=<prec>/<rd short>/<rdisp short>/<rd time32>/<rdisp time32>  bf=<hex|->
//   p=<ERR | OK:dump | DE:dump>   r1=<result, request-sized buffer>  r2=<result, 1024-byte buffer>
use super::super::*;
use crate::keyset::{DecodedServerCookie, KeySet, KeySetProvider};
use crate::nts::AeadAlgorithm;
use crate::packet::v5::server_reference_id::{BloomFilter, ServerId};
use crate::server::{
    FilterAction, FilterList, IpSubnet, Server, ServerAction, ServerConfig, ServerReason,
    ServerResponse, ServerStatHandler,
};
use crate::system::{NtpSnapshot, TimeSnapshot};
use crate::verif_hook::{hex, unhex};
use aes_siv::{KeyInit, siv::Aes128Siv, siv::Aes256Siv};
use std::fmt::Write as _;
use std::sync::{Arc, RwLock};

#[derive(Debug, Clone)]
struct FixedClock {
    now: NtpTimestamp,
}

impl NtpClock for FixedClock {
    type Error = std::io::Error;
    fn now(&self) -> Result<NtpTimestamp, Self::Error> {
        Ok(self.now)
    }
    fn set_frequency(&self, _freq: f64) -> Result<NtpTimestamp, Self::Error> {
        panic!("not used by the server")
    }
    fn get_frequency(&self) -> Result<f64, Self::Error> {
        panic!("not used by the server")
    }
    fn step_clock(&self, _offset: NtpDuration) -> Result<NtpTimestamp, Self::Error> {
        panic!("not used by the server")
    }
    fn disable_ntp_algorithm(&self) -> Result<(), Self::Error> {
        panic!("not used by the server")
    }
    fn error_estimate_update(&self, _e: NtpDuration, _m: NtpDuration) -> Result<(), Self::Error> {
        panic!("not used by the server")
    }
    fn status_update(&self, _l: NtpLeapIndicator) -> Result<(), Self::Error> {
        panic!("not used by the server")
    }
}

#[derive(Default)]
struct Stats(Vec<String>);

impl ServerStatHandler for Stats {
    fn register(&mut self, version: u8, nts: bool, reason: ServerReason, response: ServerResponse) {
        let r = match reason {
            ServerReason::RateLimit => 0,
            ServerReason::ParseError => 1,
            ServerReason::InvalidCrypto => 2,
            ServerReason::InternalError => 3,
            ServerReason::Policy => 4,
        };
        let a = match response {
            ServerResponse::NTSNak => 0,
            ServerResponse::Deny => 1,
            ServerResponse::Ignore => 2,
            ServerResponse::ProvideTime => 3,
        };
        self.0.push(format!("{}/{}/{}/{}", version, nts as u8, r, a));
    }
}

fn session_keys(sess: u32, width: usize) -> (Vec<u8>, Vec<u8>) {
    let s2c = (0..width).map(|i| (sess as usize * 37 + i + 16) as u8).collect();
    let c2s = (0..width).map(|i| (sess as usize * 37 + i + 144) as u8).collect();
    (s2c, c2s)
}

fn session_cookie(alg: u16, sess: u32) -> DecodedServerCookie {
    match alg {
        17 => {
            let (s2c, c2s) = session_keys(sess, 64);
            DecodedServerCookie {
                algorithm: AeadAlgorithm::AeadAesSivCmac512,
                s2c: Box::new(AesSivCmac512::try_from(s2c).unwrap()),
                c2s: Box::new(AesSivCmac512::try_from(c2s).unwrap()),
            }
        }
        a => {
            // 15, or an unknown algorithm id carried with 32-byte keys
            let (s2c, c2s) = session_keys(sess, 32);
            DecodedServerCookie {
                algorithm: AeadAlgorithm::from(a),
                s2c: Box::new(AesSivCmac256::try_from(&s2c[..]).unwrap()),
                c2s: Box::new(AesSivCmac256::try_from(&c2s[..]).unwrap()),
            }
        }
    }
}

fn server_key(j: u32) -> [u8; 64] {
    std::array::from_fn(|i| (j as usize * 101 + i * 3 + 7) as u8)
}

fn make_keyset(id_offset: u32, primary: u32, keys: &[u32]) -> Arc<KeySet> {
    let mut file = Vec::new();
    file.extend_from_slice(&0u64.to_be_bytes());
    file.extend_from_slice(&id_offset.to_be_bytes());
    file.extend_from_slice(&primary.to_be_bytes());
    file.extend_from_slice(&(keys.len() as u32).to_be_bytes());
    for j in keys {
        file.extend_from_slice(&server_key(*j));
    }
    let (provider, _) = KeySetProvider::load(&mut &file[..], 8).expect("keyset load");
    provider.get()
}

fn siv_encrypt(alg: u16, key: &[u8], aad: &[u8], nonce: &[u8], plaintext: &[u8]) -> Vec<u8> {
    if alg == 17 {
        let mut siv = Aes256Siv::new(aes_siv::Key::<Aes256Siv>::from_slice(key));
        siv.encrypt([aad, nonce], plaintext).expect("siv encrypt")
    } else {
        let mut siv = Aes128Siv::new(aes_siv::Key::<Aes128Siv>::from_slice(key));
        siv.encrypt([aad, nonce], plaintext).expect("siv encrypt")
    }
}

struct Builder<'k> {
    id_offset: u32,
    nkeys: u32,
    keyset: &'k KeySet,
    counter: u8,
}

impl Builder<'_> {
    // cookie part  c<alg>.<key>.<pad>.<sess>   key = index of the server key that encrypts it, x = a key the server does not have
    fn cookie_field(&mut self, spec: &str) -> Vec<u8> {
        let f: Vec<&str> = spec.split('.').collect();
        let alg: u16 = f[0].parse().unwrap();
        let pad: usize = f[2].parse().unwrap();
        let sess: u32 = f[3].parse().unwrap();
        let dc = session_cookie(alg, sess);
        let cookie = if f[1] == "x" {
            let ks = make_keyset(self.id_offset.wrapping_add(1000), 0, &[77]);
            ks.encode_cookie(&dc)
        } else if f[1] == "p" {
            self.keyset.encode_cookie(&dc)
        } else {
            let k: u32 = f[1].parse().unwrap();
            let keys: Vec<u32> = (0..self.nkeys).collect();
            let ks = make_keyset(self.id_offset, k, &keys);
            ks.encode_cookie(&dc)
        };
        let mut out = Vec::new();
        out.extend_from_slice(&0x204u16.to_be_bytes());
        out.extend_from_slice(&((4 + cookie.len() + pad) as u16).to_be_bytes());
        out.extend_from_slice(&cookie);
        out.extend(std::iter::repeat_n(0u8, pad));
        out
    }

    fn sub(&mut self, spec: &str) -> Vec<u8> {
        let mut out = Vec::new();
        if spec == "-" {
            return out;
        }
        for part in spec.split(';') {
            match &part[..1] {
                "h" => out.extend(unhex(&part[1..])),
                "c" => out.extend(self.cookie_field(&part[1..])),
                _ => panic!("bad sub part"),
            }
        }
        out
    }

    // authenticator part  a<nonce_len>.<sess>.<alg>.<extra>.<ctcut>.<sub>
    fn auth_field(&mut self, spec: &str, msg: &[u8]) -> Vec<u8> {
        let f: Vec<&str> = spec.splitn(6, '.').collect();
        let nonce_len: usize = f[0].parse().unwrap();
        let sess: u32 = f[1].parse().unwrap();
        let alg: u16 = f[2].parse().unwrap();
        let extra: usize = f[3].parse().unwrap();
        let lie: i32 = f[4].parse().unwrap();
        let plaintext = self.sub(f[5]);
        let (_, c2s) = session_keys(sess, if alg == 17 { 64 } else { 32 });
        self.counter = self.counter.wrapping_add(1);
        let c = self.counter;
        let nonce: Vec<u8> = (0..nonce_len).map(|i| (i as u8).wrapping_mul(13).wrapping_add(c)).collect();
        let ct = siv_encrypt(alg, &c2s, msg, &nonce, &plaintext);
        let pn = nonce_len.next_multiple_of(4);
        let pc = ct.len().next_multiple_of(4);
        let mut out = Vec::new();
        out.extend_from_slice(&0x404u16.to_be_bytes());
        out.extend_from_slice(&((8 + pn + pc + extra) as u16).to_be_bytes());
        out.extend_from_slice(&(nonce_len as u16).to_be_bytes());
        out.extend_from_slice(&((ct.len() as i32 + lie) as u16).to_be_bytes());
        out.extend_from_slice(&nonce);
        out.extend(std::iter::repeat_n(0u8, pn - nonce_len));
        out.extend_from_slice(&ct);
        out.extend(std::iter::repeat_n(0u8, pc - ct.len() + extra));
        out
    }

    fn build_message(&mut self, spec: &str) -> Vec<u8> {
        let mut msg: Vec<u8> = Vec::new();
        for part in spec.split(',') {
            match &part[..1] {
                "h" => msg.extend(unhex(&part[1..])),
                "c" => {
                    let f = self.cookie_field(&part[1..]);
                    msg.extend(f)
                }
                "a" => {
                    let f = self.auth_field(&part[1..], &msg);
                    msg.extend(f)
                }
                "x" => {
                    let f: Vec<&str> = part[1..].split('.').collect();
                    let off: usize = f[0].parse().unwrap();
                    let v: u8 = f[1].parse().unwrap();
                    if off < msg.len() {
                        msg[off] ^= v;
                    }
                }
                "t" => {
                    let n: usize = part[1..].parse().unwrap();
                    msg.truncate(n);
                }
                _ => panic!("bad message part"),
            }
        }
        msg
    }
}

fn dump_field(f: &ExtensionField<'_>, keyset: Option<&KeySet>, out: &mut String) {
    match f {
        ExtensionField::UniqueIdentifier(d) => write!(out, "u{}", hex(d)).unwrap(),
        ExtensionField::NtsCookie(c) => match keyset {
            None => write!(out, "c{}", hex(c)).unwrap(),
            Some(ks) => match ks.decode_cookie(c) {
                Ok(dc) => write!(
                    out,
                    "k{}.{}.{}.{}",
                    c.len(),
                    u16::from(dc.algorithm),
                    hex(dc.s2c.key_bytes()),
                    hex(dc.c2s.key_bytes())
                )
                .unwrap(),
                Err(_) => write!(out, "k{}.bad", c.len()).unwrap(),
            },
        },
        ExtensionField::NtsCookiePlaceholder { cookie_length } => write!(out, "p{}", cookie_length).unwrap(),
        ExtensionField::InvalidNtsEncryptedField => out.push('i'),
        ExtensionField::DraftIdentification(d) => write!(out, "d{}", hex(d.as_bytes())).unwrap(),
        ExtensionField::Padding(n) => write!(out, "g{}", n).unwrap(),
        ExtensionField::ReferenceIdRequest(r) => write!(out, "q{}.{}", r.payload_len(), r.offset()).unwrap(),
        ExtensionField::ReferenceIdResponse(r) => write!(out, "r{}", hex(r.bytes())).unwrap(),
        ExtensionField::Unknown { type_id, data } => write!(out, "x{}.{}", type_id, hex(data)).unwrap(),
    }
}

fn dump_fields(tag: &str, fs: &[ExtensionField<'_>], keyset: Option<&KeySet>, out: &mut String) {
    write!(out, "|{}:", tag).unwrap();
    if fs.is_empty() {
        out.push('-');
    }
    for (i, f) in fs.iter().enumerate() {
        if i > 0 {
            out.push(',');
        }
        dump_field(f, keyset, out);
    }
}

fn dump_packet(p: &NtpPacket<'_>, cookie: Option<&DecodedServerCookie>, keyset: Option<&KeySet>) -> String {
    let mut out = String::new();
    let (ver, mode, poll, xmit, upg) = match p.header {
        NtpHeader::V3(h) => (3, h.mode.to_bits(), h.poll.as_byte(), h.transmit_timestamp.to_bits(), false),
        NtpHeader::V4(h) => (
            4,
            h.mode.to_bits(),
            h.poll.as_byte(),
            h.transmit_timestamp.to_bits(),
            h.reference_timestamp == v5::UPGRADE_TIMESTAMP,
        ),
        NtpHeader::V5(h) => (5, h.mode as u8, h.poll.as_byte(), h.client_cookie.0, false),
    };
    let maclen = match &p.mac {
        None => 0,
        Some(m) => {
            let mut v = Vec::new();
            m.serialize(&mut v).unwrap();
            v.len()
        }
    };
    write!(out, "{}.{}.{}.{}.{}.{}", ver, mode, poll, hex(&xmit), upg as u8, maclen).unwrap();
    dump_fields("U", &p.efdata.untrusted, keyset, &mut out);
    dump_fields("A", &p.efdata.authenticated, keyset, &mut out);
    dump_fields("E", &p.efdata.encrypted, keyset, &mut out);
    match cookie {
        None => out.push_str("|K-"),
        Some(c) => write!(out, "|K{}.{}.{}", u16::from(c.algorithm), hex(c.s2c.key_bytes()), hex(c.c2s.key_bytes())).unwrap(),
    }
    out
}

// decode an answer the way the client would: with the session's server-to-client key when the
// request carried a decodable cookie, without keys otherwise
fn dump_answer(resp: &[u8], s2c: Option<&dyn Cipher>, keyset: &KeySet) -> String {
    let r = match s2c {
        Some(c) => NtpPacket::deserialize(resp, c),
        None => NtpPacket::deserialize(resp, &NoCipher),
    };
    match r {
        Ok((p, _)) => format!("OK:{}", dump_packet(&p, None, Some(keyset))),
        Err(PacketParsingError::DecryptError(p)) => format!("DE:{}", dump_packet(&p, None, Some(keyset))),
        Err(_) => "ERR".into(),
    }
}

fn p2b_case(t: &[&str]) -> String {
    let op = t[0];
    let policy = t[1];
    let require_nts = match t[2] {
        "i" => Some(FilterAction::Ignore),
        "d" => Some(FilterAction::Deny),
        _ => None,
    };
    let vmask: u8 = t[3].parse().unwrap();
    let mut accepted_versions = Vec::new();
    if vmask & 1 != 0 {
        accepted_versions.push(NtpVersion::V3);
    }
    if vmask & 2 != 0 {
        accepted_versions.push(NtpVersion::V4);
    }
    if vmask & 4 != 0 {
        accepted_versions.push(NtpVersion::V5);
    }
    let stratum: u8 = t[4].parse().unwrap();
    let leap = match t[5] {
        "0" => NtpLeapIndicator::NoWarning,
        "1" => NtpLeapIndicator::Leap61,
        "2" => NtpLeapIndicator::Leap59,
        "3" => NtpLeapIndicator::Unknown,
        _ => NtpLeapIndicator::Unsynchronized,
    };
    let refid: u32 = t[6].parse().unwrap();
    let prec: i8 = t[7].parse().unwrap();
    let root_delay: i64 = t[8].parse().unwrap();
    let var_base: f64 = t[9].parse().unwrap();
    let recv = NtpTimestamp::from_fixed_int(u64::from_str_radix(t[10], 16).unwrap());
    let now = NtpTimestamp::from_fixed_int(u64::from_str_radix(t[11], 16).unwrap());
    let (nids, seed) = t[12].split_once('.').unwrap();
    let nids: usize = nids.parse().unwrap();
    let seed: u64 = seed.parse().unwrap();
    let ks: Vec<u32> = t[13].split('.').map(|x| x.parse().unwrap()).collect();
    let (id_offset, primary, nkeys) = (ks[0], ks[1], ks[2]);
    let keys: Vec<u32> = (0..nkeys).collect();
    let keyset = make_keyset(id_offset, primary, &keys);

    let mut b = Builder { id_offset, nkeys, keyset: &keyset, counter: 0 };
    let msg = b.build_message(t[14]);

    let mut bloom = BloomFilter::new();
    {
        use rand::SeedableRng;
        let mut rng = rand::rngs::StdRng::seed_from_u64(seed);
        for _ in 0..nids {
            bloom.add_id(&ServerId::new(&mut rng));
        }
    }
    let time_snapshot = TimeSnapshot {
        precision: NtpDuration::from_exponent(prec),
        root_delay: NtpDuration::from_fixed_int(root_delay),
        root_variance_base_time: NtpTimestamp::from_fixed_int(0),
        root_variance_base: var_base,
        root_variance_linear: 0.0,
        root_variance_quadratic: 0.0,
        root_variance_cubic: 0.0,
        leap_indicator: leap,
        accumulated_steps: NtpDuration::from_fixed_int(0),
        accumulated_steps_threshold: None,
    };
    let server_info = NtpServerInfo {
        time_snapshot,
        ntp_snapshot: NtpSnapshot { stratum, reference_id: ReferenceId::from_int(refid), bloom_filter: bloom },
    };
    let disp = time_snapshot.root_dispersion(recv);

    let mut out = String::new();
    write!(out, "msg={}", hex(&msg)).unwrap();
    write!(
        out,
        " st={}/{}/{}/{}/{}",
        time_snapshot.precision.log2(),
        hex(&time_snapshot.root_delay.to_bits_short()),
        hex(&disp.to_bits_short()),
        hex(&time_snapshot.root_delay.to_bits_time32()),
        hex(&disp.to_bits_time32())
    )
    .unwrap();
    write!(out, " bf={}", if nids > 0 { hex(bloom.as_bytes()) } else { "-".into() }).unwrap();

    // the request as the real decoder sees it
    let parsed = NtpPacket::deserialize(&msg, keyset.as_ref());
    let mut s2c_key: Option<(u16, Vec<u8>)> = None;
    match &parsed {
        Ok((p, c)) => {
            if let Some(c) = c {
                s2c_key = Some((u16::from(c.algorithm), c.s2c.key_bytes().to_vec()));
            }
            write!(out, " p=OK:{}", dump_packet(p, c.as_ref(), None)).unwrap()
        }
        Err(PacketParsingError::DecryptError(p)) => write!(out, " p=DE:{}", dump_packet(p, None, None)).unwrap(),
        Err(_) => out.push_str(" p=ERR"),
    }
    let s2c: Option<Box<dyn Cipher>> = s2c_key.map(|(alg, k)| -> Box<dyn Cipher> {
        if alg == 17 {
            Box::new(AesSivCmac512::try_from(k).unwrap())
        } else {
            Box::new(AesSivCmac256::try_from(&k[..]).unwrap())
        }
    });

    let mut sizes = vec![("r1", msg.len()), ("r2", 1024usize)];
    if t.len() > 15 {
        sizes.push(("r3", t[15].parse().unwrap()));
    }
    for (tag, size) in sizes {
        let mut buffer = vec![0xEEu8; size];
        if op == "H" {
            let config = ServerConfig {
                denylist: FilterList {
                    filter: vec![IpSubnet { addr: "10.9.0.0".parse().unwrap(), mask: 16 }],
                    action: FilterAction::Deny,
                },
                allowlist: FilterList {
                    filter: vec![IpSubnet { addr: "10.0.0.0".parse().unwrap(), mask: 8 }],
                    action: FilterAction::Ignore,
                },
                rate_limiting_cache_size: 0,
                rate_limiting_cutoff: std::time::Duration::from_secs(1),
                require_nts,
                accepted_versions: accepted_versions.clone(),
            };
            let mut server = Server::new_internal(
                config,
                FixedClock { now },
                Arc::new(RwLock::new(server_info)),
                keyset.clone(),
            );
            let ip: std::net::IpAddr = if policy == "D" { "10.9.1.1".parse().unwrap() } else { "10.1.2.3".parse().unwrap() };
            let mut stats = Stats::default();
            let action = server.handle(ip, recv, &msg, &mut buffer, &mut stats);
            let st = stats.0.join("+");
            match action {
                ServerAction::Ignore => write!(out, " {}=I.{}", tag, st).unwrap(),
                ServerAction::Respond { message } => write!(
                    out,
                    " {}=S.{}.{}.{}.{}",
                    tag,
                    st,
                    message.len(),
                    hex(message),
                    dump_answer(message, s2c.as_deref(), &keyset)
                )
                .unwrap(),
            }
        } else {
            // response builders called directly on the decoded request
            let (packet, cookie) = match NtpPacket::deserialize(&msg, keyset.as_ref()) {
                Ok((p, c)) => (p, c),
                Err(PacketParsingError::DecryptError(p)) => (p, None),
                Err(_) => {
                    write!(out, " {}=I.noparse", tag).unwrap();
                    continue;
                }
            };
            let clock = FixedClock { now };
            let nts_kind = matches!(&op[1..], "R" | "D" | "T");
            if nts_kind && (cookie.is_none() || packet.version() == NtpVersion::V3) {
                write!(out, " {}=I.nocookie", tag).unwrap();
                continue;
            }
            let (answer, cipher, desired): (NtpPacket<'_>, Option<Box<dyn Cipher>>, Option<usize>) = match &op[1..] {
                "r" => (NtpPacket::rate_limit_response(packet), None, None),
                "R" => (NtpPacket::nts_rate_limit_response(packet), Some(cookie.unwrap().s2c), None),
                "d" => (NtpPacket::deny_response(packet), None, None),
                "D" => (NtpPacket::nts_deny_response(packet), Some(cookie.unwrap().s2c), None),
                "n" => {
                    if packet.version() == NtpVersion::V3 {
                        write!(out, " {}=I.nocookie", tag).unwrap();
                        continue;
                    }
                    (NtpPacket::nts_nak_response(packet), None, None)
                }
                "t" => (NtpPacket::timestamp_response(server_info, packet, recv, &clock), None, Some(msg.len())),
                _ => {
                    let c = cookie.unwrap();
                    (
                        NtpPacket::nts_timestamp_response(server_info, packet, recv, &clock, &c, &keyset),
                        Some(c.s2c),
                        Some(msg.len()),
                    )
                }
            };
            let mut cursor = Cursor::new(&mut buffer[..]);
            match answer.serialize(&mut cursor, &cipher.as_deref(), desired) {
                Ok(()) => {
                    let n = cursor.position() as usize;
                    let message = &cursor.into_inner()[..n];
                    write!(
                        out,
                        " {}=S.-.{}.{}.{}",
                        tag,
                        n,
                        hex(message),
                        dump_answer(message, s2c.as_deref(), &keyset)
                    )
                    .unwrap()
                }
                Err(_) => write!(out, " {}=I.serialize", tag).unwrap(),
            }
        }
    }
    out
}
