// Shared harness of builder S2 (C07 C08 C09 C10 C12 C14): drives the real NtpSource
// (NtpSource::new, handle_timer, handle_incoming) through a history of events on a paused
// tokio clock.  Datagrams are built here, byte by byte, from a small specification language,
// relative to the requests the implementation has sent so far (genuine answers, replays,
// forged fields, kiss codes, extension fields in encrypted / authenticated / untrusted
// position, good / foreign / broken NTS authenticators made with the real AES-SIV cipher).
//
// case:   cfg:<min>:<max> nts:<0|1> ver:<code> stash:<tag.len,..|-> <event> <event> ...
//   ver code: 0 V4, 1 UpgradedToV5, 2 V5, 100+n V4UpgradingToV5{tries_left:n}
// events: T:<dt_ms>:<desired>                    advance the clock, set the controller's desire, handle_timer
//         I:<dt_ms>:<ver>:<mode>:<stratum>:<poll>:<kiss>:<flags>:<origin>:<upg>:<efs>   handle_incoming
//         P:<dt_ms>                              handle_incoming of the previous datagram, byte for byte
//   origin: k = echo of the k-th last request (0 = the pending one), x = random
//   kiss:   0 none(refid 127.0.0.1) 1 DENY 2 RATE 3 RSTR 4 NTSN 5 XXXX   (v3/v4 reference id)
//   flags:  v5 flag bits (1 synchronized, 2 interleaved, 4 authnak); +8 = tamper with a header byte after sealing
//   efs:    - or items joined by ',':  u<k> ux us<k> ul<k>  c<tag>.<len>  d dx  A<key><mods>[items joined by ';']
//           key 0 = s2c, 1 = c2s, 2 = foreign;  mods: b = flip a ciphertext bit, n = flip a nonce bit
// output per event (events separated by '|'):
//   T <now> <desired> A <actions> D <dump>
//   I <now> <decoded> <ver> <mode> <stratum> <poll> <kiss> <authnak> <origin> <upg> <sealed> <ua> <ue> <ce> <ca> <uu> <cu> <chk> A <actions> D <dump>
//   actions: S,<ver>,<upg>,<poll>,<ctag>,<clen>,<placeholders>,<len>  T,<nanos>  R  M  X,<measurements>  or PANIC
//   dump: stash_len last_poll remote_min pending deadline_ms deny stratum reach tries ver_code
use super::super::*;
use crate::packet::{AesSivCmac256, ExtensionField};
use crate::time_types::PollIntervalLimits;
use std::fmt::Write as _;

pub(super) struct Ctl {
    pub desired: PollInterval,
    pub measurements: usize,
}
impl SourceController for Ctl {
    fn handle_measurement(&mut self, _: Measurement) {
        self.measurements += 1;
    }
    fn set_usable(&mut self, _: bool) {}
    fn desired_poll_interval(&self) -> PollInterval {
        self.desired
    }
    fn observe(&self) -> crate::ObservableSourceTimedata {
        unimplemented!()
    }
}

const KEY_S2C: u8 = 0x22;
const KEY_C2S: u8 = 0x11;
const KEY_FOREIGN: u8 = 0x33;

fn cipher(k: u8) -> AesSivCmac256 {
    AesSivCmac256::new([k; 32].into())
}

struct Req {
    origin: [u8; 8],
    uid: Option<[u8; 32]>,
}

#[derive(Clone, Default)]
struct Abs {
    ver: i64,
    mode: i64,
    stratum: i64,
    poll: i64,
    kiss: i64,
    authnak: i64,
    origin: i64,
    upg: i64,
    sealed: bool,
    ua: Vec<i64>,
    ue: Vec<i64>,
    ce: Vec<(i64, i64)>,
    ca: Vec<(i64, i64)>,
    uu: Vec<i64>,
    cu: Vec<(i64, i64)>,
    bad_auth: bool,
    du: Vec<bool>,
    da: Vec<bool>,
}

fn ver_of(code: i64) -> ProtocolVersion {
    match code {
        0 => ProtocolVersion::V4,
        1 => ProtocolVersion::UpgradedToV5,
        2 => ProtocolVersion::V5,
        n => ProtocolVersion::V4UpgradingToV5 { tries_left: (n - 100) as u8 },
    }
}
fn code_of(v: ProtocolVersion) -> i64 {
    match v {
        ProtocolVersion::V4 => 0,
        ProtocolVersion::UpgradedToV5 => 1,
        ProtocolVersion::V5 => 2,
        ProtocolVersion::V4UpgradingToV5 { tries_left } => 100 + tries_left as i64,
    }
}

fn cookie_bytes(tag: i64, len: i64) -> Vec<u8> {
    vec![tag as u8; len as usize]
}
fn cookie_abs(b: &[u8]) -> (i64, i64) {
    let n = b.iter().take_while(|x| **x != 0).count();
    (if n == 0 { 0 } else { b[0] as i64 }, n as i64)
}
fn parse_cookie(s: &str) -> (i64, i64) {
    let mut it = s.split('.');
    (it.next().unwrap().parse().unwrap(), it.next().unwrap().parse().unwrap())
}

fn list_i(v: &[i64]) -> String {
    if v.is_empty() {
        return "-".to_string();
    }
    v.iter().map(|x| x.to_string()).collect::<Vec<_>>().join(",")
}
fn list_c(v: &[(i64, i64)]) -> String {
    if v.is_empty() {
        return "-".to_string();
    }
    v.iter().map(|(t, l)| format!("{}.{}", t, l)).collect::<Vec<_>>().join(",")
}

// one extension field on the wire
fn put_ef(out: &mut Vec<u8>, v5: bool, ty: u16, val: &[u8]) {
    let flen = if v5 { 4 + val.len() } else { (4 + val.len() + 3) / 4 * 4 };
    out.extend_from_slice(&ty.to_be_bytes());
    out.extend_from_slice(&(flen as u16).to_be_bytes());
    out.extend_from_slice(val);
    while out.len() % 4 != 0 {
        out.push(0);
    }
}

struct World {
    reqs: Vec<Req>,
    seed: u64,
}
impl World {
    fn rnd(&mut self) -> u8 {
        self.seed = self.seed.wrapping_mul(6364136223846793005).wrapping_add(1442695040888963407);
        (self.seed >> 33) as u8
    }
    fn back(&self, k: &str) -> Option<usize> {
        let k: usize = k.parse().ok()?;
        if k < self.reqs.len() { Some(self.reqs.len() - 1 - k) } else { None }
    }
    // (type, value bytes, abstract uid id or cookie)
    fn plain_item(&mut self, it: &str, uids: &mut Vec<i64>, cookies: &mut Vec<(i64, i64)>) -> (u16, Vec<u8>) {
        if let Some(r) = it.strip_prefix("us") {
            // first 16 bytes only: never matches
            let v = match self.back(r).and_then(|i| self.reqs[i].uid) {
                Some(u) => u[..16].to_vec(),
                None => (0..16).map(|_| self.rnd()).collect(),
            };
            uids.push(-1);
            (0x0104, v)
        } else if let Some(r) = it.strip_prefix("ul") {
            match self.back(r).and_then(|i| self.reqs[i].uid.map(|u| (i, u))) {
                Some((i, u)) => {
                    let mut v = u.to_vec();
                    v.extend((0..16).map(|_| self.rnd()));
                    uids.push(i as i64);
                    (0x0104, v)
                }
                None => {
                    uids.push(-1);
                    (0x0104, (0..48).map(|_| self.rnd()).collect())
                }
            }
        } else if let Some(r) = it.strip_prefix('u') {
            match self.back(r).and_then(|i| self.reqs[i].uid.map(|u| (i, u))) {
                Some((i, u)) => {
                    uids.push(i as i64);
                    (0x0104, u.to_vec())
                }
                None => {
                    uids.push(-1);
                    (0x0104, (0..32).map(|_| self.rnd()).collect())
                }
            }
        } else if let Some(r) = it.strip_prefix('c') {
            let (t, l) = parse_cookie(r);
            cookies.push(if l == 0 { (0, 0) } else { (t, l) });
            (0x0204, cookie_bytes(t, l))
        } else if it == "d" {
            uids.push(-100);
            (0xF5FF, crate::packet::v5::DRAFT_VERSION.as_bytes().to_vec())
        } else if it == "dx" {
            uids.push(-101);
            (0xF5FF, b"draft-ietf-ntp-ntpv5-00".to_vec())
        } else {
            panic!("BADSPEC item {}", it)
        }
    }
}

// split "a,b,A0[x;y],c" at top-level commas
fn split_items(s: &str) -> Vec<String> {
    let mut res = Vec::new();
    let mut depth = 0;
    let mut cur = String::new();
    for ch in s.chars() {
        match ch {
            '[' => {
                depth += 1;
                cur.push(ch)
            }
            ']' => {
                depth -= 1;
                cur.push(ch)
            }
            ',' if depth == 0 => {
                res.push(std::mem::take(&mut cur));
            }
            _ => cur.push(ch),
        }
    }
    if !cur.is_empty() {
        res.push(cur);
    }
    res
}

fn build_packet(w: &mut World, f: &[&str], nts_source: bool) -> (Vec<u8>, Abs) {
    // f: ver mode stratum poll kiss flags origin upg efs
    let ver: i64 = f[0].parse().unwrap();
    let mode: i64 = f[1].parse().unwrap();
    let stratum: i64 = f[2].parse().unwrap();
    let poll: i64 = f[3].parse().unwrap();
    let kiss: i64 = f[4].parse().unwrap();
    let flags: i64 = f[5].parse().unwrap();
    let upg: i64 = f[7].parse().unwrap();
    let v5 = ver == 5;
    let mut a = Abs {
        ver,
        mode,
        stratum,
        poll: (poll as u8) as i8 as i64,
        kiss: if v5 { 0 } else { kiss },
        authnak: if v5 && flags & 4 != 0 { 1 } else { 0 },
        upg: if ver == 4 { upg } else { 0 },
        origin: -1,
        ..Default::default()
    };
    let origin: [u8; 8] = match w.back(f[6]) {
        Some(i) => {
            a.origin = i as i64;
            w.reqs[i].origin
        }
        None => {
            let mut o = [0u8; 8];
            for b in o.iter_mut() {
                *b = w.rnd();
            }
            o
        }
    };
    let mut p = vec![0u8; 48];
    p[0] = ((ver as u8) << 3) | (mode as u8 & 7);
    p[1] = stratum as u8;
    p[2] = poll as u8;
    p[3] = 0xEC;
    if v5 {
        p[4..8].copy_from_slice(&[0, 0, 1, 0]);
        p[8..12].copy_from_slice(&[0, 0, 2, 0]);
        p[15] = (flags & 7) as u8;
        for i in 16..24 {
            p[i] = w.rnd();
        }
        p[24..32].copy_from_slice(&origin);
    } else {
        p[4..8].copy_from_slice(&[0, 0, 1, 0]);
        p[8..12].copy_from_slice(&[0, 0, 2, 0]);
        let refid: &[u8; 4] = match kiss {
            1 => b"DENY",
            2 => b"RATE",
            3 => b"RSTR",
            4 => b"NTSN",
            5 => b"XXXX",
            _ => &[127, 0, 0, 1],
        };
        p[12..16].copy_from_slice(refid);
        if upg != 0 {
            p[16..24].copy_from_slice(b"NTP5DRFT");
        }
        p[24..32].copy_from_slice(&origin);
    }
    p[32..40].copy_from_slice(&[0, 0, 0, 100, 0, 0, 0, 0]);
    p[40..48].copy_from_slice(&[0, 0, 0, 100, 0, 0, 1, 0]);
    if ver != 3 && f[8] != "-" {
        let items = split_items(f[8]);
        let nitems = items.len();
        for (idx, it) in items.iter().enumerate() {
            let before = p.len();
            if let Some(rest) = it.strip_prefix('A') {
                let open = rest.find('[').expect("BADSPEC A");
                let head = &rest[..open];
                let inner = &rest[open + 1..rest.len() - 1];
                let key = match &head[..1] {
                    "0" => KEY_S2C,
                    "1" => KEY_C2S,
                    _ => KEY_FOREIGN,
                };
                let mods = &head[1..];
                let mut e_uids = Vec::new();
                let mut e_cookies = Vec::new();
                let mut plain = Vec::new();
                if !inner.is_empty() {
                    for it2 in inner.split(';') {
                        let (ty, val) = w.plain_item(it2, &mut e_uids, &mut e_cookies);
                        put_ef(&mut plain, v5, ty, &val);
                    }
                }
                let plen = plain.len();
                let mut buf = plain;
                buf.resize(plen + 64, 0);
                let r = Cipher::encrypt(&cipher(key), &mut buf, plen, &p).expect("encrypt");
                let mut nonce = buf[..r.nonce_length].to_vec();
                let mut ct = buf[r.nonce_length..r.nonce_length + r.ciphertext_length].to_vec();
                if mods.contains('b') {
                    let k = ct.len() / 2;
                    ct[k] ^= 0x10;
                }
                if mods.contains('n') {
                    nonce[3] ^= 0x01;
                }
                let mut body = Vec::new();
                body.extend_from_slice(&(nonce.len() as u16).to_be_bytes());
                body.extend_from_slice(&(ct.len() as u16).to_be_bytes());
                body.extend_from_slice(&nonce);
                while body.len() % 4 != 0 {
                    body.push(0);
                }
                body.extend_from_slice(&ct);
                while body.len() % 4 != 0 {
                    body.push(0);
                }
                put_ef(&mut p, v5, 0x0404, &body);
                let good = nts_source && key == KEY_S2C && !mods.contains('b') && !mods.contains('n');
                if good {
                    a.sealed = true;
                    let uu = std::mem::take(&mut a.uu);
                    a.ua.extend(uu);
                    let cu = std::mem::take(&mut a.cu);
                    a.ca.extend(cu);
                    a.ue.extend(e_uids.into_iter().filter(|x| *x > -100));
                    let du = std::mem::take(&mut a.du);
                    a.da.extend(du);
                    a.ce.extend(e_cookies);
                } else {
                    a.bad_auth = true;
                }
            } else {
                let mut uids = Vec::new();
                let mut cookies = Vec::new();
                let (ty, val) = w.plain_item(it, &mut uids, &mut cookies);
                // a cookie value is delivered with its padding: keep lengths a multiple of 4 on v4
                if !v5 && ty == 0x0204 && val.len() % 4 != 0 {
                    panic!("BADSPEC v4 cookie length {}", val.len());
                }
                put_ef(&mut p, v5, ty, &val);
                for u in uids {
                    if u <= -100 {
                        a.du.push(u == -100);
                    } else {
                        a.uu.push(u);
                    }
                }
                a.cu.extend(cookies);
            }
            if !v5 && idx + 1 == nitems && p.len() - before <= 24 {
                panic!("BADSPEC last v4 field would be read as a MAC");
            }
        }
    }
    if flags & 8 != 0 {
        p[3] ^= 0x01;
        if a.sealed {
            a.bad_auth = true;
        }
    }
    if v5 {
        // the v5 decoder accepts only request/response modes and needs the right draft identification
        // as the first such field of the untrusted (then authenticated) list
        let first = a.du.first().or(a.da.first()).copied();
        if (mode != 3 && mode != 4) || first != Some(true) {
            a.bad_auth = true;
        }
    }
    (p, a)
}

fn parse_sent(buf: &[u8], w: &mut World) -> String {
    let ver = (buf[0] >> 3) & 7;
    let mut origin = [0u8; 8];
    if ver == 5 {
        origin.copy_from_slice(&buf[24..32]);
    } else {
        origin.copy_from_slice(&buf[40..48]);
    }
    let upg = if ver == 4 && &buf[16..24] == b"NTP5DRFT" { 1 } else { 0 };
    let poll = buf[2] as i8;
    // walk the cleartext extension fields
    let mut uid = None;
    let mut cookie: (i64, i64) = (-1, -1);
    let mut placeholders = 0;
    let mut off = 48;
    while off + 4 <= buf.len() {
        let ty = u16::from_be_bytes([buf[off], buf[off + 1]]);
        let len = u16::from_be_bytes([buf[off + 2], buf[off + 3]]) as usize;
        if len < 4 {
            break;
        }
        let end = (off + len).min(buf.len());
        let val = &buf[off + 4..end];
        match ty {
            0x0104 if uid.is_none() && val.len() >= 32 => {
                let mut u = [0u8; 32];
                u.copy_from_slice(&val[..32]);
                uid = Some(u);
            }
            0x0204 => cookie = cookie_abs(val),
            0x0304 => placeholders += 1,
            _ => {}
        }
        off += (len + 3) / 4 * 4;
    }
    w.reqs.push(Req { origin, uid });
    format!("S,{},{},{},{},{},{},{}", ver, upg, poll, cookie.0, cookie.1, placeholders, buf.len())
}

fn actions_string(it: NtpSourceActionIterator, w: &mut World, measurements: usize) -> String {
    let mut parts = Vec::new();
    for a in it {
        match a {
            NtpSourceAction::Send(b) => parts.push(parse_sent(&b, w)),
            NtpSourceAction::SetTimer(d) => parts.push(format!("T,{}", d.as_nanos())),
            NtpSourceAction::Reset => parts.push("R".to_string()),
            NtpSourceAction::Demobilize => parts.push("M".to_string()),
        }
    }
    if measurements > 0 {
        parts.push(format!("X,{}", measurements));
    }
    if parts.is_empty() { "-".to_string() } else { parts.join(" ") }
}

fn dump(s: &NtpSource<Ctl>, start: tokio::time::Instant) -> String {
    let (pending, deadline) = match s.current_request_identifier {
        Some((_, d)) => (1, d.duration_since(start).as_millis() as i64),
        None => (0, 0),
    };
    format!(
        "{} {} {} {} {} {} {} {} {} {}",
        s.nts.as_ref().map(|n| n.cookies.len()).unwrap_or(0),
        s.last_poll_interval.as_log(),
        s.remote_min_poll_interval.as_log(),
        pending,
        deadline,
        s.have_deny_rstr_response as i64,
        s.stratum,
        s.reach.0,
        s.tries,
        code_of(s.protocol_version)
    )
}

// what the real decoder says about the datagram, compared with the abstraction built from the specification
fn cross_check(s: &NtpSource<Ctl>, bytes: &[u8], a: &Abs, w: &World) -> (bool, u32) {
    let cipher = s.nts.as_ref().map(|nts| nts.s2c.as_ref());
    match NtpPacket::deserialize(bytes, &cipher) {
        Err(_) => (false, 0),
        Ok((pk, _)) => {
            let uid_id = |u: &[u8]| -> i64 {
                for (i, r) in w.reqs.iter().enumerate() {
                    if let Some(x) = r.uid {
                        if u.len() >= 32 && u[..32] == x {
                            return i as i64;
                        }
                    }
                }
                -1
            };
            let mut ua = Vec::new();
            let mut ca = Vec::new();
            for ef in pk.authenticated_extension_fields() {
                match ef {
                    ExtensionField::UniqueIdentifier(u) => ua.push(uid_id(u)),
                    ExtensionField::NtsCookie(c) => ca.push(cookie_abs(c)),
                    _ => {}
                }
            }
            let mut uu = Vec::new();
            let mut cu = Vec::new();
            for ef in pk.untrusted_extension_fields() {
                match ef {
                    ExtensionField::UniqueIdentifier(u) => uu.push(uid_id(u)),
                    ExtensionField::NtsCookie(c) => cu.push(cookie_abs(c)),
                    _ => {}
                }
            }
            let ce: Vec<(i64, i64)> = pk.new_cookies().map(|c| cookie_abs(&c)).collect();
            let mode = match pk.mode() {
                NtpAssociationMode::Reserved => 0,
                NtpAssociationMode::SymmetricActive => 1,
                NtpAssociationMode::SymmetricPassive => 2,
                NtpAssociationMode::Client => 3,
                NtpAssociationMode::Server => 4,
                NtpAssociationMode::Broadcast => 5,
                NtpAssociationMode::Control => 6,
                NtpAssociationMode::Private => 7,
            };
            let mut bad = 0u32;
            let mut chk = |i: u32, c: bool| {
                if !c {
                    bad |= 1 << i;
                }
            };
            chk(0, pk.version().as_u8() as i64 == a.ver);
            chk(1, mode == a.mode);
            chk(2, pk.stratum() as i64 == a.stratum);
            chk(3, pk.poll().as_log() as i64 == a.poll);
            chk(4, (pk.is_upgrade() as i64) == a.upg);
            chk(5, ua == a.ua);
            chk(6, ca == a.ca);
            chk(7, uu == a.uu);
            chk(8, cu == a.cu);
            chk(9, ce == a.ce);
            chk(10, a.ver == 5 || !pk.is_kiss() || (pk.is_kiss_deny() == (a.kiss == 1)
                    && pk.is_kiss_rstr() == (a.kiss == 3)
                    && pk.is_kiss_ntsn() == (a.kiss == 4)));
            chk(11, a.ver != 5 || !pk.is_kiss() || pk.is_kiss_ntsn() == (a.authnak == 1));
            (true, bad)
        }
    }
}

pub(super) fn run_history(t: &[&str]) -> String {
    let mut cmin = 4i8;
    let mut cmax = 10i8;
    let mut nts = false;
    let mut ver = 0i64;
    let mut stash: Vec<(i64, i64)> = Vec::new();
    let mut evs: Vec<&str> = Vec::new();
    for tok in t {
        if let Some(r) = tok.strip_prefix("cfg:") {
            let mut it = r.split(':');
            cmin = it.next().unwrap().parse().unwrap();
            cmax = it.next().unwrap().parse().unwrap();
        } else if let Some(r) = tok.strip_prefix("nts:") {
            nts = r == "1";
        } else if let Some(r) = tok.strip_prefix("ver:") {
            ver = r.parse().unwrap();
        } else if let Some(r) = tok.strip_prefix("stash:") {
            if r != "-" {
                stash = r.split(',').map(parse_cookie).collect();
            }
        } else {
            evs.push(tok);
        }
    }
    let rt = tokio::runtime::Builder::new_current_thread()
        .enable_time()
        .start_paused(true)
        .build()
        .unwrap();
    rt.block_on(async move {
        let start = tokio::time::Instant::now();
        let mut w = World { reqs: Vec::new(), seed: 0x5eed_1234_abcd_0001 };
        let config = SourceConfig {
            poll_interval_limits: PollIntervalLimits {
                min: PollInterval::test_new(cmin),
                max: PollInterval::test_new(cmax),
            },
            initial_poll_interval: PollInterval::test_new(cmin),
        };
        let ntsdata = if nts {
            let mut d = SourceNtsData {
                cookies: CookieStash::default(),
                c2s: Box::new(cipher(KEY_C2S)),
                s2c: Box::new(cipher(KEY_S2C)),
            };
            for (tg, l) in &stash {
                d.cookies.store(cookie_bytes(*tg, *l));
            }
            Some(Box::new(d))
        } else {
            None
        };
        let (mut src, _) = NtpSource::new(
            "10.1.2.3:123".parse().unwrap(),
            config,
            ver_of(ver),
            Ctl { desired: PollInterval::test_new(cmin), measurements: 0 },
            ntsdata,
            ClockId(7),
            Default::default(),
            Default::default(),
        );
        let mut out = String::new();
        let mut last: Option<(Vec<u8>, Abs)> = None;
        for (i, ev) in evs.iter().enumerate() {
            if i > 0 {
                out.push_str(" | ");
            }
            let f: Vec<&str> = ev.split(':').collect();
            let dt: u64 = f[1].parse().unwrap();
            if dt > 0 {
                tokio::time::advance(std::time::Duration::from_millis(dt)).await;
            }
            let now = tokio::time::Instant::now().duration_since(start).as_millis();
            src.controller.measurements = 0;
            if f[0] == "T" {
                let desired: i8 = f[2].parse().unwrap();
                src.controller.desired = PollInterval::test_new(desired);
                let r = std::panic::catch_unwind(std::panic::AssertUnwindSafe(|| src.handle_timer()));
                match r {
                    Ok(it) => {
                        let a = actions_string(it, &mut w, 0);
                        write!(out, "T {} {} A {} D {}", now, desired, a, dump(&src, start)).unwrap();
                    }
                    Err(_) => {
                        write!(out, "T {} {} A PANIC D -", now, desired).unwrap();
                        break;
                    }
                }
            } else {
                let (bytes, a) = if f[0] == "P" {
                    match &last {
                        Some(x) => x.clone(),
                        None => (vec![0u8; 4], Abs { bad_auth: true, ..Default::default() }),
                    }
                } else {
                    build_packet(&mut w, &f[2..], nts)
                };
                let (decoded, chk) = cross_check(&src, &bytes, &a, &w);
                let r = std::panic::catch_unwind(std::panic::AssertUnwindSafe(|| {
                    src.handle_incoming(&bytes, NtpTimestamp::from_fixed_int(1 << 32), NtpTimestamp::from_fixed_int(200 << 32))
                }));
                write!(
                    out,
                    "I {} {} {} {} {} {} {} {} {} {} {} {} {} {} {} {} {} {} ",
                    now,
                    decoded as i64,
                    a.ver,
                    a.mode,
                    a.stratum,
                    a.poll,
                    a.kiss,
                    a.authnak,
                    a.origin,
                    a.upg,
                    a.sealed as i64,
                    list_i(&a.ua),
                    list_i(&a.ue),
                    list_c(&a.ce),
                    list_c(&a.ca),
                    list_i(&a.uu),
                    list_c(&a.cu),
                    // 0: the decoder's result agrees with the specification-level abstraction; else a mask of
                    // the disagreeing components (bit 12: decodes / is rejected against expectation)
                    chk | (((decoded == a.bad_auth) as u32) << 12)
                )
                .unwrap();
                match r {
                    Ok(it) => {
                        let m = src.controller.measurements;
                        let acts = actions_string(it, &mut w, m);
                        write!(out, "A {} D {}", acts, dump(&src, start)).unwrap();
                    }
                    Err(_) => {
                        write!(out, "A PANIC D -").unwrap();
                        break;
                    }
                }
                last = Some((bytes, a));
            }
        }
        out
    })
}

// C14 grid point: nts vercode cookie_len fill  ->  "<outcome> <len>"   outcome 0 Send, 1 Reset, 2 panic, 3 other
pub(super) fn run_c14(t: &[&str]) -> String {
    let nts = t[0] == "1";
    let ver: i64 = t[1].parse().unwrap();
    let clen: usize = t[2].parse().unwrap();
    let fill: usize = t[3].parse().unwrap();
    let ntsdata = if nts {
        let mut d = SourceNtsData {
            cookies: CookieStash::default(),
            c2s: Box::new(cipher(KEY_C2S)),
            s2c: Box::new(cipher(KEY_S2C)),
        };
        for _ in 0..fill {
            d.cookies.store(vec![7u8; clen]);
        }
        Some(Box::new(d))
    } else {
        None
    };
    let (mut src, _) = NtpSource::new(
        "10.1.2.3:123".parse().unwrap(),
        SourceConfig::default(),
        ver_of(ver),
        Ctl { desired: PollInterval::test_new(4), measurements: 0 },
        ntsdata,
        ClockId(7),
        Default::default(),
        Default::default(),
    );
    let r = std::panic::catch_unwind(std::panic::AssertUnwindSafe(|| src.handle_timer().collect::<Vec<_>>()));
    match r {
        Err(_) => "2 0".to_string(),
        Ok(v) => match &v[..] {
            [NtpSourceAction::Send(b), NtpSourceAction::SetTimer(_)] => format!("0 {}", b.len()),
            [NtpSourceAction::Reset] => "1 0".to_string(),
            _ => "3 0".to_string(),
        },
    }
}
