// Shared by c28.rs and c29.rs (include!d into both): the real NTS-KE server
// (KeyExchangeServer::handle_connection / handle_longterm) against a scripted raw TLS client,
// and the real NTS-KE client (KeyExchangeClient::exchange_keys) against a scripted raw TLS
// server, over tokio::io::duplex + rustls with the repository's test certificates.
//
// server case   srv <versions> <tokens> <server> <port> <permit> <stream>
//   versions  accepted_versions as digits, e.g. 45, 54, 4, 3, - (none)
//   tokens    pool_authentication_tokens: comma separated hex strings, - for none
//   server    hex of the configured server name or -;  port  decimal or -
//   permit    1: a keep-alive permit is available, 0: not
//   stream    hex of everything the client writes before closing its sending side
//   output    <8 hex tokens: exported c2s,s2c for (proto,alg) = (0,15) (0,17) (0x8001,15) (0x8001,17)>
//             <hc> <asked> <lt> <items...>
//             hc: 0 = Ok(None), 1 = Ok(Some(permit, stream)), 100+class = Err; asked: permit closure called;
//             lt: 0 = handle_longterm not entered, 1 = Ok(()), 100+class = Err
//             items: what the client received, record by record: <type16> <len> <body bytes>, a cookie record
//             that the key set decodes as 70000 <alg> <len> <c2s> <len> <s2c>, an undecodable one as
//             70001 <len> <bytes>, trailing bytes that are no record as 70002 <len> <bytes>
//
// client case   cli <protocols> <algorithms> <denied> <response>
//   protocols / algorithms   the client's preference lists: comma separated decimal u16, - for empty
//   denied    comma separated hex server names or -;  response: hex of what the scripted server answers
//   output    <8 hex tokens as above (exported on the server side)> <len> <request bytes the server received>
//             then 0 <version 4|5> <port> <len remote> <len c2s> <c2s> <len s2c> <s2c> <n cookies> (<len> <bytes>)*
//             or   1 <error class>
//
// newcli <V4|V5|UP>   output: <n> <protocols...> <m> <algorithms...> of KeyExchangeClient::new
use std::sync::Arc;
use std::{format, string::String, string::ToString, vec::Vec};

use tokio::io::{AsyncReadExt, AsyncWriteExt};

use super::super::*;

const EXPORT_LABEL: &[u8] = b"EXPORTER-network-time-security";
const TABLE: [(u16, u16, usize); 4] = [(0, 15, 32), (0, 17, 64), (0x8001, 15, 32), (0x8001, 17, 64)];

fn hex(b: &[u8]) -> String {
    crate::verif_hook::hex(b)
}
fn unhex(s: &str) -> Vec<u8> {
    crate::verif_hook::unhex(s)
}
fn hexlist(s: &str) -> Vec<Vec<u8>> {
    if s == "-" {
        return Vec::new();
    }
    s.split(',').map(|x| if x == "e" { Vec::new() } else { unhex(x) }).collect()
}
fn u16list(s: &str) -> Vec<u16> {
    if s == "-" {
        return Vec::new();
    }
    s.split(',').map(|x| x.parse().unwrap()).collect()
}

fn io_class(e: &std::io::Error) -> i64 {
    match e.kind() {
        std::io::ErrorKind::UnexpectedEof => 1,
        std::io::ErrorKind::InvalidData => 2,
        _ => 9,
    }
}

fn nts_class(e: &NtsError) -> i64 {
    match e {
        NtsError::IO(e) => io_class(e),
        NtsError::Invalid => 3,
        NtsError::UnrecognizedCriticalRecord => 4,
        NtsError::NoOverlappingProtocol => 5,
        NtsError::NoOverlappingAlgorithm => 6,
        NtsError::UnknownWarning(c) => 7 + 16 * i64::from(*c),
        NtsError::Error(c) => 8 + 16 * i64::from(u16::from(*c)),
        NtsError::AeadNotSupported(v) => 10 + 16 * i64::from(*v),
        NtsError::IncorrectSizedKey => 11,
        NtsError::NotPermitted => 12,
        NtsError::Tls(_) => 13,
        NtsError::Dns(_) => 14,
        NtsError::NoCookie => 15,
    }
}

fn certs(pem: &'static [u8]) -> Vec<Certificate> {
    tls_utils::pemfile::certs(&mut &*pem).collect::<Result<Vec<_>, _>>().unwrap()
}
const CA: &[u8] = include_bytes!(concat!(env!("CARGO_MANIFEST_DIR"), "/test-keys/testca.pem"));
const CHAIN: &[u8] = include_bytes!(concat!(env!("CARGO_MANIFEST_DIR"), "/test-keys/end.fullchain.pem"));
const KEY: &[u8] = include_bytes!(concat!(env!("CARGO_MANIFEST_DIR"), "/test-keys/end.key"));

fn client_connector() -> TlsConnector {
    let builder = tls_utils::client_config_builder_with_protocol_versions(&[&TLS13]);
    let verifier = tls_utils::PlatformVerifier::new_with_extra_roots(certs(CA))
        .unwrap()
        .with_provider(builder.crypto_provider().clone());
    let mut tls_config = builder
        .dangerous()
        .with_custom_certificate_verifier(Arc::new(verifier))
        .with_no_client_auth();
    tls_config.alpn_protocols = std::vec![b"ntske/1".to_vec()];
    TlsConnector::from(Arc::new(tls_config))
}

fn server(versions: &str, tokens: &str, server: &str, port: &str) -> KeyExchangeServer {
    let accepted_versions = versions
        .chars()
        .filter_map(|c| match c {
            '3' => Some(NtpVersion::V3),
            '4' => Some(NtpVersion::V4),
            '5' => Some(NtpVersion::V5),
            _ => None,
        })
        .collect();
    KeyExchangeServer::new(NtsServerConfig {
        certificate_chain: certs(CHAIN),
        private_key: tls_utils::pemfile::private_key(&mut &*KEY).unwrap(),
        accepted_versions,
        server: if server == "-" { None } else { Some(String::from_utf8(unhex(server)).unwrap()) },
        port: if port == "-" { None } else { Some(port.parse().unwrap()) },
        pool_authentication_tokens: hexlist(tokens).into_iter().map(|t| String::from_utf8(t).unwrap()).collect(),
    })
    .unwrap()
}

// RFC 8915 section 5.1, written out independently of NtsKeys::extract_from_connection
fn export_table<T>(conn: &tls_utils::ConnectionCommon<T>) -> String {
    let mut s = String::new();
    for (p, a, n) in TABLE {
        for dir in 0..2u8 {
            let mut key = std::vec![0u8; n];
            let ctx = [(p >> 8) as u8, (p & 255) as u8, (a >> 8) as u8, (a & 255) as u8, dir];
            conn.export_keying_material(&mut key, EXPORT_LABEL, Some(&ctx)).unwrap();
            s.push_str(&hex(&key));
            s.push(' ');
        }
    }
    s
}

fn push_bytes(o: &mut Vec<i64>, b: &[u8]) {
    o.push(b.len() as i64);
    o.extend(b.iter().map(|x| i64::from(*x)));
}

// raw record splitter, independent of NtsRecord::parse
fn split_records(buf: &[u8], keyset: Option<&KeySet>, o: &mut Vec<i64>) {
    let mut i = 0;
    while i + 4 <= buf.len() {
        let ty = (u16::from(buf[i]) << 8) | u16::from(buf[i + 1]);
        let len = ((usize::from(buf[i + 2])) << 8) | usize::from(buf[i + 3]);
        if i + 4 + len > buf.len() {
            break;
        }
        let body = &buf[i + 4..i + 4 + len];
        i += 4 + len;
        if ty & 0x7fff == 5 {
            if let Some(ks) = keyset {
                match ks.decode_cookie(body) {
                    Ok(c) => {
                        o.push(70000);
                        o.push(i64::from(u16::from(c.algorithm)));
                        push_bytes(o, c.c2s.key_bytes());
                        push_bytes(o, c.s2c.key_bytes());
                    }
                    Err(_) => {
                        o.push(70001);
                        push_bytes(o, body);
                    }
                }
                continue;
            }
        }
        o.push(i64::from(ty));
        push_bytes(o, body);
    }
    if i < buf.len() {
        o.push(70002);
        push_bytes(o, &buf[i..]);
    }
}

// true when buf holds complete records the last of which is an end-of-message record
fn complete_message(buf: &[u8]) -> bool {
    let mut i = 0;
    while i + 4 <= buf.len() {
        let ty = (u16::from(buf[i]) << 8) | u16::from(buf[i + 1]);
        let len = ((usize::from(buf[i + 2])) << 8) | usize::from(buf[i + 3]);
        if i + 4 + len > buf.len() {
            return false;
        }
        i += 4 + len;
        if ty & 0x7fff == 0 {
            return true;
        }
    }
    false
}

fn ints(v: &[i64]) -> String {
    let mut s = String::new();
    for x in v {
        s.push_str(&format!("{x} "));
    }
    s
}

async fn server_case(t: &[&str], connector: &TlsConnector) -> String {
    let kex = server(t[0], t[1], t[2], t[3]);
    let permit_avail = t[4] == "1";
    let stream = unhex(t[5]);
    let keyset = Arc::new(KeySet::new());
    let (c, s) = tokio::io::duplex(1 << 17);

    let client = async {
        let mut tls = connector.connect(ServerName::try_from("localhost").unwrap(), c).await.unwrap();
        let table = export_table(tls.get_ref().1);
        let _ = tls.write_all(&stream).await;
        let _ = tls.flush().await;
        let _ = tls.shutdown().await;
        let mut got = Vec::new();
        let mut buf = [0u8; 4096];
        loop {
            match tls.read(&mut buf).await {
                Ok(0) | Err(_) => break,
                Ok(n) => got.extend_from_slice(&buf[..n]),
            }
        }
        (table, got)
    };

    let srv = async {
        let asked = std::cell::Cell::new(false);
        let r = kex
            .handle_connection(s, &keyset, || {
                asked.set(true);
                if permit_avail { Some(()) } else { None }
            })
            .await;
        let (hc, lt) = match r {
            Ok(None) => (0, 0),
            Err(e) => (100 + nts_class(&e), 0),
            Ok(Some(((), io))) => {
                let lt = match kex.handle_longterm(io, || keyset.clone()).await {
                    Ok(()) => 1,
                    Err(e) => 100 + nts_class(&e),
                };
                (1, lt)
            }
        };
        (hc, i64::from(asked.get()), lt)
    };

    let ((table, got), (hc, asked, lt)) = tokio::join!(client, srv);
    let mut o = std::vec![hc, asked, lt];
    split_records(&got, Some(&keyset), &mut o);
    format!("{table}{}", ints(&o))
}

async fn client_case(t: &[&str], connector: &TlsConnector) -> String {
    let protocols: Vec<NextProtocol> = u16list(t[0]).into_iter().map(NextProtocol::from).collect();
    let algorithms: Vec<AeadAlgorithm> = u16list(t[1]).into_iter().map(AeadAlgorithm::from).collect();
    let denied: Vec<String> = hexlist(t[2]).into_iter().map(|d| String::from_utf8(d).unwrap()).collect();
    let response = unhex(t[3]);
    let kexs = server("45", "-", "-", "-");
    let client = KeyExchangeClient {
        connector: connector.clone(),
        protocols: protocols.into(),
        algorithms: algorithms.into(),
    };
    let (c, s) = tokio::io::duplex(1 << 17);

    let cl = async {
        client
            .exchange_keys(c, "localhost".to_string(), denied.iter().map(|d| std::borrow::Cow::Borrowed(d.as_str())))
            .await
    };
    let sv = async {
        let mut tls = kexs.acceptor.accept(s).await.unwrap();
        let table = export_table(tls.get_ref().1);
        let mut req = Vec::new();
        let mut buf = [0u8; 4096];
        while !complete_message(&req) {
            match tls.read(&mut buf).await {
                Ok(0) | Err(_) => break,
                Ok(n) => req.extend_from_slice(&buf[..n]),
            }
        }
        let _ = tls.write_all(&response).await;
        let _ = tls.flush().await;
        let _ = tls.shutdown().await;
        (table, req)
    };
    let (res, (table, req)) = tokio::join!(cl, sv);
    let mut o = Vec::new();
    push_bytes(&mut o, &req);
    match res {
        Err(e) => {
            o.push(1);
            o.push(nts_class(&e));
        }
        Ok(mut r) => {
            o.push(0);
            o.push(match r.protocol_version {
                ProtocolVersion::V4 => 4,
                ProtocolVersion::V5 => 5,
                _ => 99,
            });
            o.push(i64::from(r.port));
            push_bytes(&mut o, r.remote.as_bytes());
            push_bytes(&mut o, r.nts.c2s.key_bytes());
            push_bytes(&mut o, r.nts.s2c.key_bytes());
            let mut cookies = Vec::new();
            while let Some(ck) = r.nts.cookies.get() {
                cookies.push(ck);
            }
            o.push(cookies.len() as i64);
            for ck in &cookies {
                push_bytes(&mut o, ck);
            }
        }
    }
    format!("{table}{}", ints(&o))
}

fn new_client_case(t: &[&str]) -> String {
    let protocol_version = match t[0] {
        "V4" => ProtocolVersion::V4,
        "V5" => ProtocolVersion::V5,
        _ => ProtocolVersion::V4UpgradingToV5 { tries_left: 8 },
    };
    let c = KeyExchangeClient::new(&NtsClientConfig { certificates: certs(CA).into(), protocol_version }).unwrap();
    let mut o = std::vec![c.protocols.len() as i64];
    o.extend(c.protocols.iter().map(|p| i64::from(u16::from(*p))));
    o.push(c.algorithms.len() as i64);
    o.extend(c.algorithms.iter().map(|a| i64::from(u16::from(*a))));
    ints(&o)
}

fn drive_ntske() {
    let rt = tokio::runtime::Builder::new_current_thread().enable_all().build().unwrap();
    let connector = client_connector();
    crate::verif_hook::drive(|t| {
        let fut = async {
            match t[0] {
                "srv" => server_case(&t[1..], &connector).await,
                "cli" => client_case(&t[1..], &connector).await,
                _ => new_client_case(&t[1..]),
            }
        };
        rt.block_on(async {
            match tokio::time::timeout(std::time::Duration::from_secs(30), fut).await {
                Ok(s) => s,
                Err(_) => "TIMEOUT".to_string(),
            }
        })
    });
}
