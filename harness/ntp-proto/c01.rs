// C01: clock steps never exceed the configured panic thresholds.  Driver over k1_common.rs.
include!("/verif/harness/ntp-proto/k1_common.rs");

#[test]
fn verif_c01_driver() {
    crate::verif_hook::drive(|t| k1_run(t));
}
