// C23: NtpPacket::deserialize on arbitrary bytes in the three key contexts.
// input:  N <hex>                                   no keys (NoCipher)
//         C <hex> <k> (<nonce> <aad> <ct> <pt>)*k    client cipher = table oracle chosen by the driver (key bytes 01)
//         R <keyhex> <hex>                          client context, real AES-SIV cipher with that key
//         S <id_offset> <n> <keyhex>*n <hex>        server KeySet (loaded through KeySetProvider::load), real ciphers
//         MK <id_offset> <primary> <n> <keyhex>*n <alg> <s2c> <c2s> <ver> <ncookies> <cookie-len-pad>
//            material: genuine cookie, NTS request (under c2s) and NTS response (under s2c) built by
//            the real encoder, with the genuine (key, nonce, aad, ct, pt) tuples
// output: the flat encoding of coq/Model/Packet.v enc_outcome; PANIC through the driver.
use super::p1_common::*;

#[test]
fn verif_c23_driver() {
    crate::verif_hook::drive(|t| decode_op(t));
}
