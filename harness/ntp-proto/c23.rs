// C23: NtpPacket::deserialize on arbitrary bytes in the three key contexts.
// input:  N <hex>                                   no keys (NoCipher)
//         C <hex> <k> (<nonce> <aad> <ct> <pt>)*k    client cipher = table oracle chosen by the driver (key bytes 01)
//         R <keyhex> <hex>                          client context, real AES-SIV cipher with that key
//         S <id_offset> <n> <keyhex>*n <hex>        server KeySet (loaded through KeySetProvider::load), real ciphers
//         MK <id_offset> <primary> <n> <keyhex>*n <alg> <s2c> <c2s> <ver> <ncookies> <cookie-len-pad>
//            material: genuine cookie, NTS request (under c2s) and NTS response (under s2c) built by
//            the real encoder, with the genuine (key, nonce, aad, ct, pt) tuples
// output: the flat encoding of coq/Model/Packet.v enc_outcome; PANIC through the driver.
use super::p1_common::*;
use super::super::*;
use crate::keyset::{DecodedServerCookie, KeySetProvider};
use crate::nts::AeadAlgorithm;
use crate::packet::extension_fields::ExtensionFieldData;
use std::fmt::Write as _;
use std::sync::{Arc, Mutex};

pub(super) fn load_keyset(id_offset: u32, primary: u32, keys: &[Vec<u8>]) -> std::sync::Arc<crate::keyset::KeySet> {
    let mut f = Vec::new();
    f.extend_from_slice(&0u64.to_be_bytes());
    f.extend_from_slice(&id_offset.to_be_bytes());
    f.extend_from_slice(&primary.to_be_bytes());
    f.extend_from_slice(&(keys.len() as u32).to_be_bytes());
    for k in keys {
        assert_eq!(k.len(), 64);
        f.extend_from_slice(k);
    }
    let (prov, _) = KeySetProvider::load(&mut f.as_slice(), 8).unwrap();
    prov.get()
}

fn material(t: &[&str]) -> String {
    let id_offset: u32 = t[0].parse().unwrap();
    let primary: u32 = t[1].parse().unwrap();
    let n: usize = t[2].parse().unwrap();
    let keys: Vec<Vec<u8>> = (0..n).map(|i| unhex(t[3 + i])).collect();
    let r = &t[3 + n..];
    let alg: u16 = r[0].parse().unwrap();
    let s2c = unhex(r[1]);
    let c2s = unhex(r[2]);
    let ver: u8 = r[3].parse().unwrap();
    let ncookies: u8 = r[4].parse().unwrap();
    let ks = load_keyset(id_offset, primary, &keys);
    let dsc = DecodedServerCookie {
        algorithm: AeadAlgorithm::from(alg),
        s2c: real_cipher(&s2c),
        c2s: real_cipher(&c2s),
    };
    let cookie = ks.encode_cookie(&dsc);
    let mut out = String::new();
    write!(out, "cookie {} ", hex(&cookie)).unwrap();
    // the genuine cookie tuple (layout of encode_cookie: id 4, length 2, nonce 16, ciphertext)
    let mut pt = Vec::new();
    pt.extend_from_slice(&alg.to_be_bytes());
    pt.extend_from_slice(&s2c);
    pt.extend_from_slice(&c2s);
    push_table_entry(&mut out, &keys[primary as usize], &cookie[6..22], &[], &cookie[22..], &pt);
    // request under c2s
    let (req, _) = if ver == 5 {
        NtpPacket::nts_poll_message_v5(&cookie, ncookies, PollInterval::from_byte(6))
    } else {
        NtpPacket::nts_poll_message(&cookie, ncookies, PollInterval::from_byte(6))
    };
    let log = Arc::new(Mutex::new(Vec::new()));
    let rec = Recording { inner: real_cipher(&c2s), log: log.clone() };
    let b = serialize_capped(&req, &rec, 4096, None).unwrap();
    write!(out, "request {} ", hex(&b)).unwrap();
    for (nn, a, c, p) in log.lock().unwrap().iter() {
        push_table_entry(&mut out, &c2s, nn, a, c, p.as_ref().unwrap());
    }
    // response under s2c: uid authenticated, fresh cookies encrypted
    let uid = req
        .efdata
        .authenticated
        .iter()
        .find(|f| matches!(f, ExtensionField::UniqueIdentifier(_)))
        .cloned()
        .unwrap();
    let mut authenticated = vec![uid];
    if ver == 5 {
        authenticated.push(ExtensionField::DraftIdentification(std::borrow::Cow::Borrowed(v5::DRAFT_VERSION)));
    }
    let mut header = req.header;
    match &mut header {
        NtpHeader::V3(h) | NtpHeader::V4(h) => h.mode = NtpAssociationMode::Server,
        NtpHeader::V5(h) => h.mode = v5::NtpMode::Response,
    }
    let resp = NtpPacket {
        header,
        efdata: ExtensionFieldData {
            authenticated,
            encrypted: (0..ncookies).map(|_| ExtensionField::NtsCookie(ks.encode_cookie(&dsc).into())).collect(),
            untrusted: vec![],
        },
        mac: None,
    };
    let log = Arc::new(Mutex::new(Vec::new()));
    let rec = Recording { inner: real_cipher(&s2c), log: log.clone() };
    let b = serialize_capped(&resp, &rec, 4096, None).unwrap();
    write!(out, "response {} ", hex(&b)).unwrap();
    for (nn, a, c, p) in log.lock().unwrap().iter() {
        push_table_entry(&mut out, &s2c, nn, a, c, p.as_ref().unwrap());
    }
    out
}

#[test]
fn verif_c23_driver() {
    crate::verif_hook::drive(|t| {
        let mut out = String::new();
        match t[0] {
            "N" => {
                let data = unhex(t[1]);
                let r = NtpPacket::deserialize(&data, &NoCipher);
                push_outcome(&mut out, &r);
            }
            "C" => {
                let data = unhex(t[1]);
                let k: usize = t[2].parse().unwrap();
                let table = (0..k)
                    .map(|i| (unhex(t[3 + 4 * i]), unhex(t[4 + 4 * i]), unhex(t[5 + 4 * i]), unhex(t[6 + 4 * i])))
                    .collect();
                let cipher = TableCipher { key: vec![1], table };
                let r = NtpPacket::deserialize(&data, &cipher);
                push_outcome(&mut out, &r);
            }
            "R" => {
                let key = unhex(t[1]);
                let data = unhex(t[2]);
                let cipher = real_cipher(&key);
                let r = NtpPacket::deserialize(&data, &*cipher);
                push_outcome(&mut out, &r);
            }
            "S" => {
                let id_offset: u32 = t[1].parse().unwrap();
                let n: usize = t[2].parse().unwrap();
                let keys: Vec<Vec<u8>> = (0..n).map(|i| unhex(t[3 + i])).collect();
                let data = unhex(t[3 + n]);
                let ks = load_keyset(id_offset, 0, &keys);
                let r = NtpPacket::deserialize(&data, ks.as_ref());
                push_outcome(&mut out, &r);
            }
            "MK" => out = material(&t[1..]),
            _ => out.push_str("BADOP"),
        }
        out
    });
}
