// hook file for statime-csptp/src/source.rs: declares the per-property harness modules
#[cfg(any(verif_all, verif_c44))]
#[path = "/verif/harness/statime-csptp/c44.rs"]
mod c44;
