// hook file for statime-csptp/src/source.rs: declares the per-property harness modules
