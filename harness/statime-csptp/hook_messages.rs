// hook file for statime-csptp/src/messages.rs: declares the per-property harness modules
