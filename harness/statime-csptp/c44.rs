// C44 harness (statime-csptp): child module of source.rs' hook module; drives the real
// CsptpSource::run for a scripted number of polls with a mock socket per poll, mock sleep
// futures, a mock RNG and a recording controller.
// input (flat integers, as coq/Model/CsptpSource.v run_source decodes them):
//   domain active npolls (send_ok send_secs send_nanos nevents (kind secs nanos len bytes...)*)*
// output per poll: request_len request... has_meas fwd_sender fwd_receiver back_sender back_receiver
//   leap leap wellformed  gm(8) prio1 prio2 class acc variance steps ptp tt ft
extern crate std;
use core::{
    cell::RefCell,
    future::Future,
    pin::Pin,
    task::{Context, Poll, Waker},
};
use std::{
    collections::VecDeque,
    format,
    rc::Rc,
    string::String,
    sync::{Arc, Mutex},
    vec,
    vec::Vec,
};

use ntp_proto::{ObservableSourceTimedata, PollInterval, SourceType};

use super::super::*;
use crate::{CsptpConfig, InternalState};

const RESPONSE_INTERVAL: Duration = Duration::from_millis(7);

enum Ev {
    RecvErr,
    Datagram(Vec<u8>, Option<Timestamp>),
}
struct PollScript {
    send: Option<Timestamp>,
    events: VecDeque<Ev>,
}
#[derive(Default)]
struct Shared {
    polls: VecDeque<PollScript>,
    current: VecDeque<Ev>,
    current_send: Option<Timestamp>,
    exhausted: bool,
    at_interval: bool,
    sockets_created: usize,
    sent: Vec<Vec<u8>>,
}

struct Sock(Rc<RefCell<Shared>>);
struct RecvFut<'a>(Rc<RefCell<Shared>>, &'a mut [u8]);
impl Future for RecvFut<'_> {
    type Output = Result<ClientRecvResult, ()>;
    fn poll(self: Pin<&mut Self>, _cx: &mut Context<'_>) -> Poll<Self::Output> {
        let this = self.get_mut();
        let mut sh = this.0.borrow_mut();
        match sh.current.pop_front() {
            None => {
                sh.exhausted = true;
                Poll::Pending
            }
            Some(Ev::RecvErr) => Poll::Ready(Err(())),
            Some(Ev::Datagram(d, ts)) => {
                let n = d.len().min(this.1.len());
                this.1[..n].copy_from_slice(&d[..n]);
                Poll::Ready(Ok(ClientRecvResult { bytes_read: n, timestamp: ts }))
            }
        }
    }
}
impl ClientSocket for Sock {
    type Error = ();
    fn recv(&mut self, buf: &mut [u8]) -> impl Future<Output = Result<ClientRecvResult, ()>> {
        RecvFut(self.0.clone(), buf)
    }
    async fn send_event(&mut self, buf: &[u8]) -> Result<Timestamp, ()> {
        let mut sh = self.0.borrow_mut();
        sh.sent.push(buf.to_vec());
        sh.current_send.ok_or(())
    }
}

// interval sleeps yield once (so that the shutdown future is looked at between polls);
// the response timeout fires when the socket's script is exhausted
struct SleepFut {
    shared: Rc<RefCell<Shared>>,
    timeout: bool,
    polled: bool,
}
impl Future for SleepFut {
    type Output = ();
    fn poll(self: Pin<&mut Self>, _cx: &mut Context<'_>) -> Poll<()> {
        let this = self.get_mut();
        let mut sh = this.shared.borrow_mut();
        if this.timeout {
            if sh.exhausted { Poll::Ready(()) } else { Poll::Pending }
        } else if this.polled {
            Poll::Ready(())
        } else {
            this.polled = true;
            sh.at_interval = true;
            Poll::Pending
        }
    }
}
struct ShutdownFut(Rc<RefCell<Shared>>);
impl Future for ShutdownFut {
    type Output = ();
    fn poll(self: Pin<&mut Self>, _cx: &mut Context<'_>) -> Poll<()> {
        let sh = self.0.borrow();
        if sh.at_interval && sh.polls.is_empty() { Poll::Ready(()) } else { Poll::Pending }
    }
}

struct Lcg(u64);
impl rand::RngCore for Lcg {
    fn next_u32(&mut self) -> u32 {
        (self.next_u64() >> 32) as u32
    }
    fn next_u64(&mut self) -> u64 {
        self.0 = self.0.wrapping_mul(6364136223846793005).wrapping_add(1442695040888963407);
        self.0
    }
    fn fill_bytes(&mut self, dest: &mut [u8]) {
        for b in dest {
            *b = self.next_u64() as u8;
        }
    }
    fn try_fill_bytes(&mut self, dest: &mut [u8]) -> Result<(), rand::Error> {
        self.fill_bytes(dest);
        Ok(())
    }
}

#[derive(Default)]
struct Recorded {
    usable_calls: Vec<bool>,
    measurements: Vec<Measurement>,
}
struct Controller(Arc<Mutex<Recorded>>);
impl SourceController for Controller {
    fn handle_measurement(&mut self, measurement: Measurement) {
        self.0.lock().unwrap().measurements.push(measurement);
    }
    fn set_usable(&mut self, usable: bool) {
        self.0.lock().unwrap().usable_calls.push(usable);
    }
    fn desired_poll_interval(&self) -> PollInterval {
        PollInterval::default()
    }
    fn observe(&self) -> ObservableSourceTimedata {
        ObservableSourceTimedata::default()
    }
}

fn ts_dec(secs: i128, nanos: i128) -> Timestamp {
    let mut b = [0u8; 10];
    b[0..6].copy_from_slice(&(secs as u64).to_be_bytes()[2..8]);
    b[6..10].copy_from_slice(&(nanos as u32).to_be_bytes());
    let t = Timestamp::deserialize(&b).expect("generator: timestamp outside the type");
    assert!(t.seconds() as i128 == secs && t.nanos() as i128 == nanos, "generator: timestamp outside the type");
    t
}
fn ntp_bits(t: NtpTimestamp) -> i128 {
    let s = format!("{:?}", t);
    s.trim_start_matches("NtpTimestamp(").trim_end_matches(')').parse::<i128>().unwrap()
}
fn leap_code(l: NtpLeapIndicator) -> i128 {
    match l {
        NtpLeapIndicator::NoWarning => 0,
        NtpLeapIndicator::Leap61 => 1,
        NtpLeapIndicator::Leap59 => 2,
        NtpLeapIndicator::Unknown => 3,
        NtpLeapIndicator::Unsynchronized => 4,
    }
}

fn run(l: &[i128]) -> Vec<i128> {
    let domain = l[0] as u8;
    let active = l[1] != 0;
    let npolls = l[2] as usize;
    let mut pos = 3;
    let shared = Rc::new(RefCell::new(Shared::default()));
    for _ in 0..npolls {
        let send = if l[pos] != 0 { Some(ts_dec(l[pos + 1], l[pos + 2])) } else { None };
        let nev = l[pos + 3] as usize;
        pos += 4;
        let mut events = VecDeque::new();
        for _ in 0..nev {
            let kind = l[pos];
            let len = l[pos + 3] as usize;
            let bytes: Vec<u8> = l[pos + 4..pos + 4 + len].iter().map(|x| *x as u8).collect();
            events.push_back(match kind {
                0 => Ev::RecvErr,
                1 => Ev::Datagram(bytes, None),
                _ => Ev::Datagram(bytes, Some(ts_dec(l[pos + 1], l[pos + 2]))),
            });
            pos += 4 + len;
        }
        shared.borrow_mut().polls.push_back(PollScript { send, events });
    }

    let manager: CsptpManager<RefCell<InternalState>> = CsptpManager::new(CsptpConfig::default());
    let local = ClockId::new();
    let remote = ClockId::new();
    if active {
        manager.update_used_sources([(remote, SourceType::Csptp)].into_iter());
    }
    let recorded = Arc::new(Mutex::new(Recorded::default()));
    let config = CsptpSourceConfig {
        poll_interval: Duration::from_millis(1000),
        response_interval: RESPONSE_INTERVAL,
        domain,
    };
    let mut source = CsptpSource::new(local, remote, config, &manager, Controller(recorded.clone()));

    let mut out = Vec::new();
    {
        let sh_socket = shared.clone();
        let create_socket = move || -> Result<Sock, ()> {
            let mut sh = sh_socket.borrow_mut();
            let p = sh.polls.pop_front().expect("harness: socket created after the script ended");
            sh.current = p.events;
            sh.current_send = p.send;
            sh.exhausted = false;
            sh.at_interval = false;
            sh.sockets_created += 1;
            Ok(Sock(sh_socket.clone()))
        };
        let sh_sleep = shared.clone();
        let sleep = move |d: Duration| SleepFut { shared: sh_sleep.clone(), timeout: d == RESPONSE_INTERVAL, polled: false };
        let mut seed = 1u64;
        let rng = move || {
            seed += 1;
            Lcg(seed)
        };
        let mut fut = core::pin::pin!(source.run(ShutdownFut(shared.clone()), create_socket, sleep, rng));
        let mut cx = Context::from_waker(Waker::noop());
        let mut reported = 0usize;
        let mut seen_meas = 0usize;
        let mut seen_usable = 0usize;
        for round in 0.. {
            assert!(round < 100_000, "harness: run did not finish");
            let r = fut.as_mut().poll(&mut cx);
            // a poll has ended when the loop is back at its interval sleep
            let (at_interval, created) = {
                let sh = shared.borrow();
                (sh.at_interval, sh.sockets_created)
            };
            if (at_interval || r.is_ready()) && reported < created {
                assert_eq!(created, reported + 1);
                let sh = shared.borrow();
                let req = &sh.sent[reported];
                assert_eq!(sh.sent.len(), created);
                out.push(req.len() as i128);
                out.extend(req.iter().map(|b| *b as i128));
                let rec = recorded.lock().unwrap();
                let ms = &rec.measurements[seen_meas..];
                let us = &rec.usable_calls[seen_usable..];
                if ms.is_empty() {
                    out.extend([0, 0, 0, 0, 0, 0, 0, us.is_empty() as i128]);
                } else {
                    let wellformed = ms.len() == 2
                        && us == [true]
                        && ms[0].sender_id == local
                        && ms[0].receiver_id == remote
                        && ms[1].sender_id == remote
                        && ms[1].receiver_id == local
                        && ms.iter().all(|m| {
                            m.root_delay == NtpDuration::ZERO && m.root_dispersion == NtpDuration::ZERO && m.precision == 0
                        });
                    out.push(1);
                    out.push(ntp_bits(ms[0].sender_ts));
                    out.push(ntp_bits(ms[0].receiver_ts));
                    let last = ms.len() - 1;
                    out.push(ntp_bits(ms[last].sender_ts));
                    out.push(ntp_bits(ms[last].receiver_ts));
                    out.push(leap_code(ms[0].leap));
                    out.push(leap_code(ms[last].leap));
                    out.push(wellformed as i128);
                }
                seen_meas = rec.measurements.len();
                seen_usable = rec.usable_calls.len();
                let st = manager.observe();
                out.extend(st.grandmaster_identity.0.iter().map(|b| *b as i128));
                out.push(st.grandmaster_priority_1 as i128);
                out.push(st.grandmaster_priority_2 as i128);
                out.push(st.grandmaster_clock_quality.clock_class as i128);
                out.push(st.grandmaster_clock_quality.clock_accuracy.to_primitive() as i128);
                out.push(st.grandmaster_clock_quality.offset_scaled_log_variance as i128);
                out.push(st.steps_removed as i128);
                out.push(st.ptp_timescale as i128);
                out.push(st.time_traceable as i128);
                out.push(st.frequency_traceable as i128);
                reported += 1;
            }
            if let Poll::Ready(res) = r {
                assert!(res.is_ok());
                break;
            }
        }
        assert_eq!(reported, npolls, "harness: not every scripted poll ran");
    }
    out
}

#[test]
fn verif_c44_driver() {
    crate::verif_hook::drive(|t| {
        let ints: Vec<i128> = t.iter().map(|x| x.parse::<i128>().unwrap()).collect();
        let s: Vec<String> = run(&ints).iter().map(|x| format!("{}", x)).collect();
        s.join(" ")
    });
}
