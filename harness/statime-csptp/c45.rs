// C45 harness (statime-csptp): child module of server.rs' hook module; drives the real
// handle_packet with a recording mock socket.
// input (flat integers, as coq/Model/Csptp.v run_server decodes them):
//   prio1 class acc_kind acc_val variance prio2 steps gm(8) ptp tt ft leap
//   recv_secs recv_nanos send_ok send_secs send_nanos packet...
// output: n (channel len bytes...)*     channel 0 = send_event, 1 = send_general
extern crate std;
use core::{
    cell::RefCell,
    future::Future,
    task::{Context, Poll, Waker},
};
use std::{format, string::String, vec, vec::Vec};

use ntp_proto::NtpLeapIndicator;
use statime_wire::{ClockAccuracy, ClockIdentity, ClockQuality};

use super::super::*;
use crate::{CsptpConfig, InternalState};

struct MockSocket {
    sent: Vec<(i128, Vec<u8>, u8, u8)>,
    send_result: Option<Timestamp>,
}

impl ServerSocket for MockSocket {
    type Addr = u8;
    type Error = ();

    async fn recv(&mut self, _buf: &mut [u8]) -> Result<ServerRecvResult<u8>, ()> {
        Err(())
    }
    async fn send_event(&mut self, buf: &[u8], from: u8, to: u8) -> Result<Timestamp, ()> {
        self.sent.push((0, buf.to_vec(), from, to));
        self.send_result.ok_or(())
    }
    async fn send_general(&mut self, buf: &[u8], from: u8, to: u8) -> Result<(), ()> {
        self.sent.push((1, buf.to_vec(), from, to));
        Ok(())
    }
}

fn block_on<F: Future>(f: F) -> F::Output {
    let mut f = core::pin::pin!(f);
    let mut cx = Context::from_waker(Waker::noop());
    for _ in 0..1000 {
        if let Poll::Ready(r) = f.as_mut().poll(&mut cx) {
            return r;
        }
    }
    panic!("harness: future did not complete");
}

fn ts_dec(secs: i128, nanos: i128) -> Timestamp {
    let mut b = [0u8; 10];
    b[0..6].copy_from_slice(&(secs as u64).to_be_bytes()[2..8]);
    b[6..10].copy_from_slice(&(nanos as u32).to_be_bytes());
    let t = Timestamp::deserialize(&b).expect("generator: timestamp outside the type");
    assert!(t.seconds() as i128 == secs && t.nanos() as i128 == nanos, "generator: timestamp outside the type");
    t
}

fn acc_dec(k: i128, v: i128) -> ClockAccuracy {
    match k {
        0 => ClockAccuracy::Reserved,
        1 => ClockAccuracy::from_primitive(v as u8),
        2 => ClockAccuracy::ProfileSpecific(v as u8),
        _ => ClockAccuracy::Unknown,
    }
}

fn run(l: &[i128]) -> Vec<i128> {
    let manager: CsptpManager<RefCell<InternalState>> = CsptpManager::new(CsptpConfig::default());
    manager.state.with_mut(|s| {
        let mut gm = [0u8; 8];
        for i in 0..8 {
            gm[i] = l[7 + i] as u8;
        }
        s.csptp_state.grandmaster_priority_1 = l[0] as u8;
        s.csptp_state.grandmaster_clock_quality = ClockQuality {
            clock_class: l[1] as u8,
            clock_accuracy: acc_dec(l[2], l[3]),
            offset_scaled_log_variance: l[4] as u16,
        };
        s.csptp_state.grandmaster_priority_2 = l[5] as u8;
        s.csptp_state.steps_removed = l[6] as u16;
        s.csptp_state.grandmaster_identity = ClockIdentity(gm);
        s.csptp_state.ptp_timescale = l[15] != 0;
        s.csptp_state.time_traceable = l[16] != 0;
        s.csptp_state.frequency_traceable = l[17] != 0;
        s.time_snapshot.leap_indicator = match l[18] {
            0 => NtpLeapIndicator::NoWarning,
            1 => NtpLeapIndicator::Leap61,
            2 => NtpLeapIndicator::Leap59,
            3 => NtpLeapIndicator::Unknown,
            _ => NtpLeapIndicator::Unsynchronized,
        };
    });
    let recv_ts = ts_dec(l[19], l[20]);
    let send_result = if l[21] != 0 { Some(ts_dec(l[22], l[23])) } else { None };
    let packet: Vec<u8> = l[24..].iter().map(|x| *x as u8).collect();
    let mut socket = MockSocket { sent: Vec::new(), send_result };
    block_on(handle_packet(&mut socket, &manager, &packet, 2u8, 1u8, recv_ts));
    let mut o = vec![socket.sent.len() as i128];
    for (ch, d, from, to) in &socket.sent {
        // answers go from the address the request was sent to, to the requester
        assert!(*from == 1 && *to == 2, "answer not sent from local to remote");
        o.push(*ch);
        o.push(d.len() as i128);
        o.extend(d.iter().map(|b| *b as i128));
    }
    o
}

#[test]
fn verif_c45_driver() {
    crate::verif_hook::drive(|t| {
        let ints: Vec<i128> = t.iter().map(|x| x.parse::<i128>().unwrap()).collect();
        let s: Vec<String> = run(&ints).iter().map(|x| format!("{}", x)).collect();
        s.join(" ")
    });
}
