// hook file for statime-csptp/src/server.rs: declares the per-property harness modules
