// hook file for statime-csptp/src/server.rs: declares the per-property harness modules
#[cfg(any(verif_all, verif_c45))]
#[path = "/verif/harness/statime-csptp/c45.rs"]
mod c45;
