// hook file for statime-wire/src/messages/mod.rs: declares the per-property harness modules
