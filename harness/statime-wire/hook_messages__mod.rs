// hook file for statime-wire/src/messages/mod.rs: declares the per-property harness modules
#[cfg(any(verif_all, verif_c41))]
#[path = "/verif/harness/statime-wire/c41.rs"]
mod c41;
