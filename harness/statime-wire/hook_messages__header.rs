// hook file for statime-wire/src/messages/header.rs: declares the per-property harness modules
