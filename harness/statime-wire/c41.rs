// C41 harness (statime-wire): child module of messages/mod.rs' hook module.
// All operations take and return flat integer lists, laid out exactly as the Coq model's
// run_D / run_S / table functions (coq/Model/PtpWire.v) decode and encode them.
//   D b0 b1 ...          parse the datagram; on success re-serialise into a zeroed buffer and parse again
//   S cap blen fill ntlv (kind*65536+type vlen v...)* header(28) body...   build + serialise + parse back
//   T k                  exhaustive from_primitive/to_primitive tables (k = 0 accuracy, 1 time source, 2 action, 3 tlv type)
extern crate std;
use std::{format, string::String, vec, vec::Vec};

use super::super::*;
use crate::common::{
    ClockAccuracy, ClockIdentity, ClockQuality, PortIdentity, TimeInterval, TimeSource, Timestamp,
    Tlv, TlvSetBuilder, TlvType,
};

fn err_code(e: &Error) -> i128 {
    match e {
        Error::BufferTooShort => 1,
        Error::Invalid => 2,
    }
}

fn acc_enc(a: ClockAccuracy) -> [i128; 2] {
    match a {
        ClockAccuracy::Reserved => [0, 0],
        ClockAccuracy::ProfileSpecific(v) => [2, v as i128],
        ClockAccuracy::Unknown => [3, 0],
        named => [1, named.to_primitive() as i128],
    }
}
fn acc_dec(k: i128, v: i128) -> ClockAccuracy {
    match k {
        0 => ClockAccuracy::Reserved,
        1 => ClockAccuracy::from_primitive(v as u8),
        2 => ClockAccuracy::ProfileSpecific(v as u8),
        _ => ClockAccuracy::Unknown,
    }
}
fn tsrc_enc(t: TimeSource) -> [i128; 2] {
    match t {
        TimeSource::AtomicClock => [0, 0],
        TimeSource::Gnss => [1, 0],
        TimeSource::TerrestrialRadio => [2, 0],
        TimeSource::SerialTimeCode => [3, 0],
        TimeSource::Ptp => [4, 0],
        TimeSource::Ntp => [5, 0],
        TimeSource::HandSet => [6, 0],
        TimeSource::Other => [7, 0],
        TimeSource::InternalOscillator => [8, 0],
        TimeSource::ProfileSpecific(v) => [9, v as i128],
        TimeSource::Reserved(v) => [10, v as i128],
    }
}
fn tsrc_dec(k: i128, v: i128) -> TimeSource {
    match k {
        0 => TimeSource::AtomicClock,
        1 => TimeSource::Gnss,
        2 => TimeSource::TerrestrialRadio,
        3 => TimeSource::SerialTimeCode,
        4 => TimeSource::Ptp,
        5 => TimeSource::Ntp,
        6 => TimeSource::HandSet,
        7 => TimeSource::Other,
        8 => TimeSource::InternalOscillator,
        9 => TimeSource::ProfileSpecific(v as u8),
        _ => TimeSource::Reserved(v as u8),
    }
}
fn action_enc(a: ManagementAction) -> i128 {
    match a {
        ManagementAction::Reserved => 0,
        ManagementAction::GET => 1,
        ManagementAction::SET => 2,
        ManagementAction::RESPONSE => 3,
        ManagementAction::COMMAND => 4,
        ManagementAction::ACKNOWLEDGE => 5,
    }
}
fn action_dec(k: i128) -> ManagementAction {
    match k {
        1 => ManagementAction::GET,
        2 => ManagementAction::SET,
        3 => ManagementAction::RESPONSE,
        4 => ManagementAction::COMMAND,
        5 => ManagementAction::ACKNOWLEDGE,
        _ => ManagementAction::Reserved,
    }
}

fn ts_enc(o: &mut Vec<i128>, t: Timestamp) {
    o.push(t.seconds() as i128);
    o.push(t.nanos() as i128);
}
fn pid_enc(o: &mut Vec<i128>, p: PortIdentity) {
    o.extend(p.clock_identity.0.iter().map(|b| *b as i128));
    o.push(p.port_number as i128);
}
// every value of the type (including nanos = 10^9, which only deserialize lets through)
fn ts_dec(l: &[i128]) -> Timestamp {
    let mut b = [0u8; 10];
    b[0..6].copy_from_slice(&(l[0] as u64).to_be_bytes()[2..8]);
    b[6..10].copy_from_slice(&(l[1] as u32).to_be_bytes());
    let t = Timestamp::deserialize(&b).expect("generator: timestamp outside the type");
    assert!(t.seconds() as i128 == l[0] && t.nanos() as i128 == l[1], "generator: timestamp outside the type");
    t
}
fn pid_dec(l: &[i128]) -> PortIdentity {
    let mut c = [0u8; 8];
    for i in 0..8 {
        c[i] = l[i] as u8;
    }
    PortIdentity { clock_identity: ClockIdentity(c), port_number: l[8] as u16 }
}

fn header_enc(o: &mut Vec<i128>, h: &Header) {
    o.push(u16::from(h.sdo_id) as i128);
    o.push(h.version.major() as i128);
    o.push(h.version.minor() as i128);
    o.push(h.domain_number as i128);
    for f in [
        h.alternate_master_flag, h.two_step_flag, h.unicast_flag, h.ptp_profile_specific_1, h.ptp_profile_specific_2,
        h.leap61, h.leap59, h.current_utc_offset_valid, h.ptp_timescale, h.time_tracable, h.frequency_tracable,
        h.synchronization_uncertain,
    ] {
        o.push(f as i128);
    }
    o.push(h.correction_field.0 as i128);
    pid_enc(o, h.source_port_identity);
    o.push(h.sequence_id as i128);
    o.push(h.log_message_interval as i128);
}
fn header_dec(l: &[i128]) -> Header {
    let version = if l[1] < 16 && l[2] < 16 {
        PtpVersion::new(l[1] as u8, l[2] as u8).unwrap()
    } else {
        assert!(l[1] == 2, "generator: version not constructible");
        Header::new(l[2] as u8).version
    };
    Header {
        sdo_id: SdoId::try_from(l[0] as u16).expect("generator: sdo id"),
        version,
        domain_number: l[3] as u8,
        alternate_master_flag: l[4] != 0,
        two_step_flag: l[5] != 0,
        unicast_flag: l[6] != 0,
        ptp_profile_specific_1: l[7] != 0,
        ptp_profile_specific_2: l[8] != 0,
        leap61: l[9] != 0,
        leap59: l[10] != 0,
        current_utc_offset_valid: l[11] != 0,
        ptp_timescale: l[12] != 0,
        time_tracable: l[13] != 0,
        frequency_tracable: l[14] != 0,
        synchronization_uncertain: l[15] != 0,
        correction_field: TimeInterval(l[16] as i64),
        source_port_identity: pid_dec(&l[17..26]),
        sequence_id: l[26] as u16,
        log_message_interval: l[27] as i8,
    }
}

fn body_enc(o: &mut Vec<i128>, b: &MessageBody) {
    o.push(b.content_type() as u8 as i128);
    match b {
        MessageBody::Sync(m) => ts_enc(o, m.origin_timestamp),
        MessageBody::DelayReq(m) => ts_enc(o, m.origin_timestamp),
        MessageBody::PDelayReq(m) => ts_enc(o, m.origin_timestamp),
        MessageBody::PDelayResp(m) => {
            ts_enc(o, m.request_receive_timestamp);
            pid_enc(o, m.requesting_port_identity);
        }
        MessageBody::FollowUp(m) => ts_enc(o, m.precise_origin_timestamp),
        MessageBody::DelayResp(m) => {
            ts_enc(o, m.receive_timestamp);
            pid_enc(o, m.requesting_port_identity);
        }
        MessageBody::PDelayRespFollowUp(m) => {
            ts_enc(o, m.response_origin_timestamp);
            pid_enc(o, m.requesting_port_identity);
        }
        MessageBody::Announce(m) => {
            ts_enc(o, m.origin_timestamp);
            o.push(m.current_utc_offset as i128);
            o.push(m.grandmaster_priority_1 as i128);
            o.push(m.grandmaster_clock_quality.clock_class as i128);
            o.extend(acc_enc(m.grandmaster_clock_quality.clock_accuracy));
            o.push(m.grandmaster_clock_quality.offset_scaled_log_variance as i128);
            o.push(m.grandmaster_priority_2 as i128);
            o.extend(m.grandmaster_identity.0.iter().map(|b| *b as i128));
            o.push(m.steps_removed as i128);
            o.extend(tsrc_enc(m.time_source));
        }
        MessageBody::Signaling(m) => pid_enc(o, m.target_port_identity),
        MessageBody::Management(m) => {
            pid_enc(o, m.target_port_identity);
            o.push(m.starting_boundary_hops as i128);
            o.push(m.boundary_hops as i128);
            o.push(action_enc(m.action));
        }
    }
}
fn body_dec(l: &[i128]) -> MessageBody {
    let r = &l[1..];
    match l[0] {
        0 => MessageBody::Sync(SyncMessage { origin_timestamp: ts_dec(r) }),
        1 => MessageBody::DelayReq(DelayReqMessage { origin_timestamp: ts_dec(r) }),
        2 => MessageBody::PDelayReq(PDelayReqMessage { origin_timestamp: ts_dec(r) }),
        3 => MessageBody::PDelayResp(PDelayRespMessage {
            request_receive_timestamp: ts_dec(r),
            requesting_port_identity: pid_dec(&r[2..]),
        }),
        8 => MessageBody::FollowUp(FollowUpMessage { precise_origin_timestamp: ts_dec(r) }),
        9 => MessageBody::DelayResp(DelayRespMessage {
            receive_timestamp: ts_dec(r),
            requesting_port_identity: pid_dec(&r[2..]),
        }),
        10 => MessageBody::PDelayRespFollowUp(PDelayRespFollowUpMessage {
            response_origin_timestamp: ts_dec(r),
            requesting_port_identity: pid_dec(&r[2..]),
        }),
        11 => {
            let mut gm = [0u8; 8];
            for i in 0..8 {
                gm[i] = r[9 + i] as u8;
            }
            MessageBody::Announce(AnnounceMessage {
                origin_timestamp: ts_dec(r),
                current_utc_offset: r[2] as i16,
                grandmaster_priority_1: r[3] as u8,
                grandmaster_clock_quality: ClockQuality {
                    clock_class: r[4] as u8,
                    clock_accuracy: acc_dec(r[5], r[6]),
                    offset_scaled_log_variance: r[7] as u16,
                },
                grandmaster_priority_2: r[8] as u8,
                grandmaster_identity: ClockIdentity(gm),
                steps_removed: r[17] as u16,
                time_source: tsrc_dec(r[18], r[19]),
            })
        }
        12 => MessageBody::Signaling(SignalingMessage { target_port_identity: pid_dec(r) }),
        _ => MessageBody::Management(ManagementMessage {
            target_port_identity: pid_dec(r),
            starting_boundary_hops: r[9] as u8,
            boundary_hops: r[10] as u8,
            action: action_dec(r[11]),
        }),
    }
}

fn suffix_bytes(m: &Message<'_>) -> Vec<u8> {
    let mut b = vec![0u8; m.suffix.wire_size()];
    m.suffix.serialize(&mut b).unwrap();
    b
}
fn msg_enc(m: &Message<'_>) -> Vec<i128> {
    let mut o = Vec::new();
    header_enc(&mut o, &m.header);
    body_enc(&mut o, &m.body);
    o.extend(suffix_bytes(m).iter().map(|b| *b as i128));
    o
}

fn op_d(input: &[i128]) -> Vec<i128> {
    let buf: Vec<u8> = input.iter().map(|x| *x as u8).collect();
    match Message::deserialize(&buf) {
        Err(e) => vec![-err_code(&e)],
        Ok(m) => {
            let e = msg_enc(&m);
            let mut o = vec![0, e.len() as i128];
            o.extend(e.iter());
            let mut out = vec![0u8; buf.len()];
            let mut again = 0;
            match m.serialize(&mut out) {
                Ok(n) => {
                    o.push(0);
                    o.extend(out[..n].iter().map(|b| *b as i128));
                    if let Ok(m2) = Message::deserialize(&out[..n]) {
                        // both the library's equality and the flat encodings must agree
                        let same = m2 == m;
                        assert_eq!(same, msg_enc(&m2) == e, "PartialEq and the flat encoding disagree");
                        again = same as i128;
                    }
                }
                Err(e) => o.push(-err_code(&e)),
            }
            o.push(again);
            o
        }
    }
}

fn tlv_type_dec(tok: i128) -> TlvType {
    let x = (tok % 65536) as u16;
    match tok / 65536 {
        0 => TlvType::from_primitive(x),
        1 => TlvType::Reserved(x),
        2 => TlvType::Legacy(x),
        _ => TlvType::Experimental(x),
    }
}

fn op_s(inp: &[i128]) -> Vec<i128> {
    let cap = inp[0] as usize;
    let blen = inp[1] as usize;
    let fill = inp[2] as u8;
    let ntlv = inp[3] as usize;
    let mut pos = 4;
    let mut backing = vec![0xa5u8; cap];
    let mut builder = TlvSetBuilder::new(&mut backing);
    for _ in 0..ntlv {
        let ty = tlv_type_dec(inp[pos]);
        let vl = inp[pos + 1] as usize;
        let value: Vec<u8> = inp[pos + 2..pos + 2 + vl].iter().map(|x| *x as u8).collect();
        pos += 2 + vl;
        if let Err(e) = builder.add(&Tlv { tlv_type: ty, value: value.as_slice().into() }) {
            return vec![-100 - err_code(&e)];
        }
    }
    let suffix = builder.build();
    let m = Message { header: header_dec(&inp[pos..pos + 28]), body: body_dec(&inp[pos + 28..]), suffix };
    let mut out = vec![fill; blen];
    match m.serialize(&mut out) {
        Err(e) => vec![-err_code(&e)],
        Ok(n) => {
            let mut o = vec![0, n as i128];
            o.extend(out[..n].iter().map(|b| *b as i128));
            o.push(match Message::deserialize(&out[..n]) {
                Ok(m2) => {
                    let same = m2 == m;
                    assert_eq!(same, msg_enc(&m2) == msg_enc(&m), "PartialEq and the flat encoding disagree");
                    same as i128
                }
                Err(e) => -err_code(&e),
            });
            o
        }
    }
}

fn op_t(k: i128) -> Vec<i128> {
    let mut o = Vec::new();
    match k {
        0 => {
            for x in 0..=255u8 {
                let a = ClockAccuracy::from_primitive(x);
                o.extend(acc_enc(a));
                o.push(a.to_primitive() as i128);
            }
        }
        1 => {
            for x in 0..=255u8 {
                let a = TimeSource::from_primitive(x);
                o.extend(tsrc_enc(a));
                o.push(a.to_primitive() as i128);
            }
        }
        2 => {
            for x in 0..=255u8 {
                let a = ManagementAction::from_primitive(x);
                o.push(action_enc(a));
                o.push(a.to_primitive() as i128);
            }
        }
        _ => {
            // TlvType: to_primitive . from_primitive = id on all 65536 codes, and the three CSPTP
            // types are hit by exactly their own code
            let mut ok = 1;
            for x in 0..=65535u16 {
                let t = TlvType::from_primitive(x);
                if t.to_primitive() != x {
                    ok = 0;
                }
                if (t == TlvType::CsptpRequest) != (x == 0xff00)
                    || (t == TlvType::CsptpResponse) != (x == 0xff01)
                    || (t == TlvType::CsptpStatus) != (x == 0xf002)
                {
                    ok = 0;
                }
            }
            o.push(ok);
        }
    }
    o
}

#[test]
fn verif_c41_driver() {
    crate::verif_hook::drive(|t| {
        let ints: Vec<i128> = t[1..].iter().map(|x| x.parse::<i128>().unwrap()).collect();
        let out = match t[0] {
            "D" => op_d(&ints),
            "S" => op_s(&ints),
            _ => op_t(ints[0]),
        };
        let s: Vec<String> = out.iter().map(|x| format!("{}", x)).collect();
        s.join(" ")
    });
}
