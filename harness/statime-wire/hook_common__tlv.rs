// hook file for statime-wire/src/common/tlv.rs: declares the per-property harness modules
