// hook file for statime-base/src/time_types.rs: declares the per-property harness modules
#[cfg(any(verif_all, verif_c32))]
#[path = "/verif/harness/statime-base/c32.rs"]
mod c32;
