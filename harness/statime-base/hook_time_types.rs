// hook file for statime-base/src/time_types.rs: declares the per-property harness modules
