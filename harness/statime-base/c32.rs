// C32 (PTP part): every operation of statime_base::Timestamp / Duration on raw 128-bit inputs.
// input tokens:  <op> <args...>  (decimal; floats as u64 bit patterns; mul/div carry the scalar type last)
// output tokens: resulting integers (coq/Model/TimeRun.v, ops 50..62); PANIC through the driver.
extern crate std;
use std::{format, string::String};

use super::super::*;

fn ts(t: &str) -> Timestamp<UTC> {
    Timestamp(t.parse::<u128>().unwrap(), PhantomData)
}
fn du(t: &str) -> Duration {
    Duration(t.parse::<i128>().unwrap())
}

macro_rules! with_scalar {
    ($ty:expr, $k:expr, $f:ident, $a:expr) => {
        match $ty {
            "i8" => $f($a, $k.parse::<i8>().unwrap()),
            "i16" => $f($a, $k.parse::<i16>().unwrap()),
            "i32" => $f($a, $k.parse::<i32>().unwrap()),
            "i64" => $f($a, $k.parse::<i64>().unwrap()),
            "u8" => $f($a, $k.parse::<u8>().unwrap()),
            "u16" => $f($a, $k.parse::<u16>().unwrap()),
            "u32" => $f($a, $k.parse::<u32>().unwrap()),
            "u64" => $f($a, $k.parse::<u64>().unwrap()),
            other => panic!("harness: unknown scalar type {}", other),
        }
    };
}

fn mul3<S: Copy>(a: Duration, k: S) -> String
where
    Duration: Mul<S, Output = Duration> + MulAssign<S>,
    S: Mul<Duration, Output = Duration>,
{
    let r1 = a * k;
    let r2 = k * a;
    let mut r3 = a;
    r3 *= k;
    format!("{} {} {}", r1.0, r2.0, r3.0)
}

fn div1<S: Copy>(a: Duration, k: S) -> String
where
    Duration: Div<S, Output = Duration>,
{
    format!("{}", (a / k).0)
}

#[test]
fn verif_c32_driver() {
    crate::verif_hook::drive(|t| match t[0] {
        "50" => format!("{}", (ts(t[1]) - ts(t[2])).0),
        "51" => {
            let mut x = ts(t[1]);
            x += du(t[2]);
            format!("{} {}", (ts(t[1]) + du(t[2])).0, x.0)
        }
        "52" => {
            let mut x = ts(t[1]);
            x -= du(t[2]);
            format!("{} {}", (ts(t[1]) - du(t[2])).0, x.0)
        }
        "53" => {
            let (a, b) = (ts(t[1]), ts(t[2]));
            let d = a - b;
            format!("{} {} {}", d.0, (b + d).0, (a - d).0)
        }
        "54" => {
            let mut x = du(t[1]);
            x += du(t[2]);
            format!("{} {}", (du(t[1]) + du(t[2])).0, x.0)
        }
        "55" => {
            let mut x = du(t[1]);
            x -= du(t[2]);
            format!("{} {}", (du(t[1]) - du(t[2])).0, x.0)
        }
        "56" => with_scalar!(t[3], t[2], mul3, du(t[1])),
        "57" => with_scalar!(t[3], t[2], div1, du(t[1])),
        "58" => format!(
            "{}",
            Timestamp::<UTC>::from_seconds_nanos_since_unix_epoch(t[1].parse().unwrap(), t[2].parse().unwrap()).0
        ),
        "59" => format!("{}", Duration::from_seconds_nanos(t[1].parse().unwrap(), t[2].parse().unwrap()).0),
        "60" => format!("{}", du(t[1]).as_seconds().to_bits()),
        "61" => format!("{}", Duration::from_f64_seconds(f64::from_bits(t[1].parse::<u64>().unwrap())).0),
        "62" => {
            let s = du(t[1]).as_seconds();
            format!("{} {}", s.to_bits(), Duration::from_f64_seconds(s).0)
        }
        other => panic!("harness: unknown op {}", other),
    });
}
